ENV_MARKS = ("env=fail", "env=up401", "env=up500")
FAULT_MARKS = ("ds=bad", "key=none", "ct=bad",
               "body=readerr", "body=badgzip", "body=truncgzip", "body=badzstd", "body=garbage",
               "body=truncated", "body=oversize")


def nontrivial(c):
    """a case with at least one request that carries events and has a fault injected, and one that
    carries events and has none (so both the error exits and the event loop are exercised)"""
    faulty = clean = False
    for l in c["lines"]:
        if not l.startswith("op req "):
            continue
        has_events = not l.rstrip().endswith("evs=-")
        # environment faults only fire for keys that are looked up
        f = any((" " + m) in l for m in FAULT_MARKS) or (" key=es" in l and any((" " + m) in l for m in ENV_MARKS))
        if has_events and f:
            faulty = True
        if has_events and not f:
            clean = True
    return faulty and clean


SPEC = dict(
    property="C23",
    component="responses",
    props_module="Refinery.Props.C23",
    gen_module="Refinery.Gen.Responses",
    quick=dict(cases=96, len=10, shards=4),
    thorough=dict(cases=4800, len=14, shards=16),
    nontrivial=nontrivial,
    rule="cases = sequences of requests against one real route.Router (real mux + middleware via the HTTP server's handler, "
         "handler functions called directly for the undecodable-dataset fault, gRPC Export methods in-process) on "
         "/1/events, /1/batch (JSON and msgpack), /v1/traces, /v1/logs, TraceService/Export, LogsService/Export; every request "
         "draws independently: route, key class (modern/classic/none), environment lookup outcome (stub ok/error, real "
         "lookupEnvironment against a local /1/auth stand-in answering 200/401/500), dataset escape, content type, body class "
         "(ok, gzip, zstd, read error, bad/truncated gzip, bad zstd, garbage, truncated, oversize) and 0..7 events of kinds "
         "{empty data, no data, no trace id, peer's trace, own trace, own trace with full queue, probe}; "
         "non-trivial = contains a request with events and an injected fault and a request with events and no fault; "
         "distinct by transcript hash",
    trusted_base=["net/http/httptest request construction; the recording ResponseWriter of the harness (makes net/http's implicit 200 explicit)",
                  "transmit.MockTransmission, sharder.MockSharder, config.MockConfig, the harness's collector stub (records AddSpan, "
                  "answers collect.ErrWouldBlock for chosen trace ids)",
                  "oracle's mapping of concrete fault classes (body class, key class x lookup outcome) to the model's fault points"],
    manifest=dict(
        text="Lean model of the control flow of every ingestion handler (event, batch, OTLP traces/logs over HTTP and gRPC, with "
             "apiKeyProcessor, handlerReturnWithError, processOTLPRequest*, processEvent) as a function from request shape and "
             "fault points (blank key, body read/decompress failure, dataset decode failure, environment lookup failure, parse "
             "failure, content type, per-event empty data / queue full / peer / probe) to the ordered response acts and the "
             "events handed to each sink. Theorems for all requests: error_status_no_effects, one_status, "
             "no_success_after_discard are REFUTED for the code as it is (proved negations with witnesses), proved as _partial "
             "for every request that does not reach batch's two missing returns / the `return nil` of processOTLPRequest*, and "
             "proved in full for the repaired control flow; batch_status_list (202 <=> accepted, 429 <=> queue full, 400 <=> "
             "invalid, one entry per event) is proved outright for both. The model is tied to /repo by replaying generated "
             "requests on the real handlers (recording every WriteHeader/Write and every event at the collector stub and both "
             "transmissions) and comparing with the model; a monitor evaluates the property on the implementation's own "
             "observations and reproduces the six defect sites (known findings).",
        note="Trusted: Lean kernel; the Go harness/oracle differential check (sampled); the repo's mocks and the collector stub; "
             "default access-key configuration; stress relief off. The undecodable-dataset fault is only reachable by calling the "
             "handler function with a fabricated route variable (net/http and URL.EscapedPath never pass a malformed escape to the mux).",
        technique="Lean 4 proof (case analysis over fault points + induction over the event list) + model/implementation correspondence check",
    ),
    assumptions=[
        "access-key configuration is the default (all non-blank keys accepted, no replacement): authorization is C24's subject",
        "Collector.Stressed() is false; ExtractMetadata does not fail on the generated events; json.Marshal of the status list cannot fail",
        "OTLP requests carry one resource/scope with plain spans or log records (no span events/links); OTLP/HTTP bodies are protobuf",
        "requests are served one at a time; the panicCatcher path is not modelled (a panic shows as a mismatch)",
        "HTTP bodies over the 20 MiB OTLP limit are not generated (the 5 MB limit of /1/events and /1/batch is)",
    ],
)
