import glob, json, os, re


def _cells(obs):
    """flag digits of the (condition, span) matrix of an eval observation"""
    m = re.search(r" x=(\S+)", obs)
    if not m or m.group(1) == "-":
        return []
    return [c[0] for row in m.group(1).split("|") for cond in row.split(";") for c in cond.split(",") if c]


def nontrivial(c):
    ops = [l.split(" ")[1] for l in c["lines"] if l.startswith("op ")]
    if not ("rule" in ops and "cond" in ops and "span" in ops and "eval" in ops):
        return False
    fl = [f for l in c["lines"] if l.startswith("obs rate=") for f in _cells(l)]
    return any(f in "4567" for f in fl) and any(f in "0123" for f in fl)


def _dec(s):
    if s == "%":
        return ""
    return re.sub(r"%([0-9A-Fa-f]{2})", lambda m: chr(int(m.group(1), 16)), s)


def _kv(parts, k):
    for p in parts:
        if p.startswith(k + "="):
            return p[len(k) + 1:]
    return ""


OPS = ["!=", "=", ">", "<", ">=", "<=", "contains", "does-not-contain", "starts-with", "exists", "not-exists",
       "has-root-span", "matches", "in", "not-in"]
DTS = ["", "string", "int", "float", "bool"]
KINDS = {"s": "string", "i": "int", "f": "float", "b": "bool", "n": "nil", "o": "map", "l": "list"}


def cell_distribution(workdir):
    """operator x datatype x (field present|absent on the span) x outcome, and operator x datatype x
    value-kind coverage, measured on the implementation's own per-(condition, span) results."""
    dist, kinds, decisions = {}, {}, {}
    for f in glob.glob(os.path.join(workdir, "s*.tr")) + glob.glob(os.path.join(workdir, "corpus.tr")):
        rules = []
        for line in open(f):
            p = line.rstrip("\n").split(" ")
            if p[0] == "case":
                rules = []
            elif p[0] == "op" and len(p) > 1 and p[1] == "rule":
                rules.append([])
            elif p[0] == "op" and len(p) > 1 and p[1] == "cond" and rules:
                rules[-1].append((_dec(_kv(p, "op")), _dec(_kv(p, "dt")) or "none", KINDS.get(_kv(p, "val")[:1], "?")))
            elif p[0] == "obs" and len(p) > 1 and p[1].startswith("rate="):
                r = _dec(_kv(p, "reason"))
                r = "no rule matched" if r == "no rule matched" else "/".join(r.split("/")[:2]) + (
                    ":delegated" if re.search(r":(deterministic|dynamic)", r) else ":bad_rule" if "bad_rule:" in r else "")
                k = "%s keep=%s" % (r, _kv(p, "keep"))
                decisions[k] = decisions.get(k, 0) + 1
                x = _kv(p, "x")
                if x in ("-", ""):
                    continue
                rows = x.split("|")
                for ri, row in enumerate(rows):
                    if ri >= len(rules) or not rules[ri]:
                        continue
                    for ci, cs in enumerate(row.split(";")):
                        if ci >= len(rules[ri]):
                            continue
                        op, dt, kind = rules[ri][ci]
                        for cell in cs.split(","):
                            if not cell:
                                continue
                            fl = int(cell[0])
                            key = "%s|%s|%s|%s" % (op, dt, "present" if fl & 1 else "absent", "match" if fl & 4 else "nomatch")
                            dist[key] = dist.get(key, 0) + 1
                            kk = "%s|%s|%s|%s" % (op, dt, kind, "present" if fl & 1 else "absent")
                            kinds[kk] = kinds.get(kk, 0) + 1
    empty = []
    for op in OPS:
        for dt in DTS:
            for kind in KINDS.values():
                for pr in ("present", "absent"):
                    if "%s|%s|%s|%s" % (op, dt or "none", kind, pr) not in kinds:
                        empty.append("%s|%s|%s|%s" % (op, dt or "none", kind, pr))
    return dist, kinds, empty, decisions


def custom(vc, spec, tier, seed, replay):
    rc = vc.generic_check(spec, "C08", tier, seed, replay)
    try:
        workdir = os.path.join(vc.CACHE, "run", "C08")
        dist, kinds, empty, decisions = cell_distribution(workdir)
        p = os.path.join(vc.VERIF, "evidence", "C08.json")
        ev = json.load(open(p))
        cov = ev["coverage"]
        cov["cell_distribution"] = {"key": "operator|datatype|field present/absent on the span|outcome (real code)",
                                    "counts": dict(sorted(dist.items()))}
        cov["cells_operator_datatype_valuekind_presence"] = {"total": len(OPS) * len(DTS) * len(KINDS) * 2,
                                                            "nonempty": len(OPS) * len(DTS) * len(KINDS) * 2 - len(empty),
                                                            "empty": empty[:80]}
        constant = sorted({k.rsplit("|", 1)[0] for k in dist} - {k.rsplit("|", 1)[0] for k in dist if k.endswith("|match")}
                          | ({k.rsplit("|", 1)[0] for k in dist} - {k.rsplit("|", 1)[0] for k in dist if k.endswith("|nomatch")}))
        cov["cells_with_constant_outcome"] = constant
        cov["decision_distribution"] = dict(sorted(decisions.items()))
        vc.write_evidence("C08", ev)
    except Exception as e:      # the extra keys are informative only
        vc.log("[C08] cell distribution not computed:", e)
    return rc


SPEC = dict(
    property="C08",
    component="rules",
    props_module="Refinery.Props.C08",
    gen_module="Refinery.Gen.Rules",
    custom=custom,
    quick=dict(cases=480, len=60, shards=4),
    thorough=dict(cases=32000, len=70, shards=16),
    nontrivial=nontrivial,
    rule="a case = a rule list (1-6 rules, 0-4 conditions each; type-directed over all 15 operators, 5 datatypes, value kinds "
         "string/int/float/bool/nil/list/map, Field/Fields/both/neither, root. prefix, ?.NUM_DESCENDANTS, trace/span/invalid scope, drop, "
         "SampleRate <=0..100, deterministic/dynamic/missing downstream sampler, CheckNestedFields on in ~45% of cases with dotted paths into nested map values, with and without root. prefix) built as a real config.RulesBasedSamplerConfig, and several "
         "traces (0-8 spans, root span first/middle/last/absent, per-field presence and typing drawn from small overlapping pools) each run through the "
         "real RulesBasedSampler.GetSampleRate with a seeded math/rand; every evaluation also records the real per-(condition, span) "
         "extraction and match, and both scope functions per rule; non-trivial = has rules, conditions, spans and an evaluation in which "
         "some (condition, span) cell matched and some did not; distinct by transcript hash",
    trusted_base=["fmt %v, strconv.Atoi/ParseFloat/ParseBool, regexp (their graphs on the arguments used are passed to the model as ext lines)",
                  "math/rand seeded through rand.Seed (GODEBUG randseednop=0 in the harness binary)",
                  "types.Payload built with NewPayload (memoized map); Go map semantics"],
    manifest=dict(
        text="Lean theorems over all rule lists, traces, external functions, downstream answers and draws: first matching rule decides "
             "(first_match), trace scope = every condition matched by some span and span scope = some span matched by all conditions "
             "(the checkedOnlyRoot short-cuts proved equivalent), Fields = first present, root. reads the root span for every span, "
             "has-root-span / ?.NUM_DESCENDANTS trace-level, drop / SampleRate N (keep iff draw = 0, rate N) / delegation / no match => keep at 1, "
             "typed and untyped comparison specs; the absent-field clause is REFUTED for the code (proved negation + one witness per operator "
             "class + proved partial statement for the operators that honour absence). Model tied to sample/rules.go and "
             "config/sampler_config.go by replaying generated (rules, trace) pairs on the real sampler and comparing decision, per-rule scope "
             "results and every (condition, span) extraction/match with the model; a monitor evaluates the documented semantics on the "
             "implementation's own observations.",
        note="Trusted: Lean kernel; the differential check (sampled); graphs of %v/strconv/regexp taken from the Go standard library itself. "
             "Known divergence recorded as findings: absent fields match under string-coercing operators.",
        technique="Lean 4 proof (loop/short-cut refinement to all/any specifications, refutation by witness) + model/implementation correspondence check",
    ),
    assumptions=["CheckNestedFields: nested paths are plain keys separated by dots leading through map values (gjson wildcards, escapes, array indices, modifiers are not modelled); json.Marshal of the span never fails; the JSON text gjson returns for a value is an ext graph (encoding/json + gjson)",
                 "Datatype is one of '', string, int, float, bool and condition values are what the YAML loader yields (string, int, float64, bool, nil, "
                 "sequence, mapping), as config validation enforces; span values are string, int64, float64, bool, nil or a list/map (other wire "
                 "types are C09's subject)",
                 "floats are finite and integers lie within +-2^53, so int<->float64 conversions and float comparisons are exact (modelled as exact fractions)",
                 "strings are valid UTF-8 (Go compares bytes, the model code points); field names do not start with 'meta.'",
                 "a rule without conditions has Conditions == nil; rule.String() keys of distinct rules are distinct",
                 "the missing-downstream-sampler branch (bad_rule) is reached by deleting the sampler from the table after Start(), since no real sampler's Start fails"],
)
