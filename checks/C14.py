def nontrivial(c):
    ops = [l.split(" ")[1] for l in c["lines"] if l.startswith("op ")]
    obs = [l for l in c["lines"] if l.startswith("obs ")]
    # a trace was ingested through a real route path and decided by a real sampler, and at least one key was classified
    return "span" in ops and any(o.startswith("obs sel=") for o in obs) and ("classify" in ops or "selkey" in ops)

SPEC = dict(
    property="C14",
    component="samplersel",
    props_module="Refinery.Props.C14",
    gen_module="Refinery.Gen.Samplersel",
    quick=dict(cases=1600, len=30, shards=4),
    thorough=dict(cases=48000, len=40, shards=16),
    nontrivial=nontrivial,
    rule="cases = one generated configuration (main YAML with DatasetPrefix and trace/parent id field names + a rules file with "
         "deterministic / dynamic / rules-based samplers of pairwise different rates under environment names, dataset names, "
         "prefixed dataset names and __default__; 8% without __default__, loaded unvalidated) written to a temp dir and loaded with config.NewConfig into a "
         "real fileConfig, then a history of: classify <key> (IsLegacyAPIKey), reload (55% of cases: the rules file on disk is rewritten - __default__ and/or named entries changed, added, removed - and fileConfig.Reload() is called, followed by lookups for destinations with and without an entry), selkey (DetermineSamplerKey), lookup "
         "(GetSamplerConfigForDestName + GetSamplingKeyFieldsForDestName), span (one event through the real Router.batch handler as "
         "msgpack or JSON, or through the OTLP msgpack path, with a stubbed environment lookup; the span the router hands to the "
         "collector goes into a real CollectorWorker.processSpan) and decide (real makeDecision with a real SamplerFactory). "
         "Keys: classic 32-hex, classic ingest hc[a-z]ic_+58, environment keys (22 alnum, hc[a-z]ik_+58), one-byte mutations of "
         "classic keys with bytes bordering the accepted ranges at random and structural positions, upper-case variants, lengths "
         "0/1/5/6/16/31/33/63/65, non-ASCII bytes. non-trivial = contains an ingested span, a sampler decision and a key "
         "classification/selection; distinct by transcript hash",
    trusted_base=["dynsampler-go returns the configured goal rate during its first interval (how a dynamic sampler is recognised)",
                  "gorilla/mux URL variables and net/http headers as set by the harness (the router's middleware chain is not run)",
                  "tinylib/msgp encoding of the generated payloads; refinery's JSON-to-msgpack conversion on the JSON path",
                  "YAML loader + validation of the config package (used as is to build the fileConfig)"],
    assumptions=["payload keys and sampler fields are not entries of types.metadataFields (Refinery's own meta.* table, kept in dedicated struct fields)",
                 "a trace is decided before late spans arrive; spans for already decided traces are outside the model",
                 "the environment lookup (Honeycomb /1/auth + cache) is an input: each request is processed with the name the lookup returns for its key",
                 "sampler internals beyond selection (rates after the first dynsampler interval, keep/drop draws, the dynamic key string) are not modelled",
                 "payload keys are distinct (duplicate keys are replayed on model and code but not judged by the monitor)"],
    manifest=dict(
        text="Lean theorems over all byte strings and all request/decision histories: legacy_key_spec (IsLegacyAPIKey k <-> k in [0-9a-f]^32 or "
             "hc[a-z]ic_[0-9a-z]^58), selection_spec, default_fallback + lookup_sites_agree, ingest_decide_agree / uniform_trace_agree "
             "(ingestion-time field selection and decision-time sampler choice are the same function of the same triple), "
             "fields_available_partial / fields_available_at_decision (every non-id field the deciding sampler reads is readable with the "
             "client's value whatever ingestion extracted); the full-strength availability statement is refuted "
             "(full_statement_refuted: a sampler field that is also a trace-id/parent-id field is recorded as missing at ingestion). "
             "Model tied to config.IsLegacyAPIKey, fileConfig.DetermineSamplerKey / GetSamplerConfigForDestName / "
             "GetSamplingKeyFieldsForDestName, types.NewCoreFieldsUnmarshaler + extractCriticalFieldsFromBytes + MemoizeFields + Get, "
             "route.batch / processOTLPRequestBatchMsgp, CollectorWorker.processSpan / makeDecision by replaying generated histories on "
             "the real code; the monitor judges the implementation's own answers against the key-shape patterns and the rules file.",
        note="Trusted: Lean kernel; differential harness (sampled); YAML loader, msgp, mux; dynsampler's first-interval rate. "
             "Known finding: C14:field-unavailable:id-field.",
        technique="Lean 4 proof (byte-level case analysis, invariants by induction over histories, fold invariants with a counting argument) "
                  "+ model/implementation correspondence check",
    ),
)
