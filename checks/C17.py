def _ops(c):
    return [l.split(" ") for l in c["lines"] if l.startswith("op ")]


def nontrivial(c):
    ops = _ops(c)
    names = [o[1] for o in ops]
    # at least two different orders of a peer list were fed to started sharders, and an ownership
    # question (which / route / send) was asked afterwards
    lists = {a for o in ops if o[1] in ("update", "reloadbusy", "reloadbusy2") for a in o[3:] if a != "-"}
    return "start" in names and len(lists) >= 2 and any(n in names for n in ("which", "route", "send"))


SPEC = dict(
    property="C17",
    component="sharder",
    props_module="Refinery.Props.C17",
    gen_module="Refinery.Gen.Sharder",
    quick=dict(cases=480, len=24, shards=4),
    thorough=dict(cases=16000, len=40, shards=16),
    nontrivial=nontrivial,
    rule="cases = small in-process clusters (1-5 nodes, 1-20 peer addresses): real DeterministicSharders fed permuted / "
         "duplicated / changed / empty peer lists through peer.MockPeers, real incoming+peer Routers with recording collector "
         "and transmissions; ops update/start/which/route/send/table plus reloadbusy/reloadbusy2 (the list changes while a "
         "WhichShard holds the read lock, optionally a second change right behind); non-trivial = a started sharder, at least two distinct "
         "orderings/lists fed, and a later ownership question (which on all nodes, route, or send followed hop by hop); "
         "distinct by transcript hash",
    trusted_base=["wyhash.Hash is a function of (bytes, seed) (its graph is supplied by the harness as ext lines; the theorems "
                  "hold for every hash function)",
                  "peer.MockPeers, collect.MockCollector, transmit.MockTransmission (the repo's own mocks)",
                  "Go sort.Sort / sort.Slice return a sorted rearrangement of their input"],
    manifest=dict(
        text="Lean theorems for every hash function, every peer list and trace id, and every outcome of the code's unstable "
             "sort of equal partition hashes: nodes holding the same list in any order (even the same set with equal length) name "
             "the same owner provided two different peers never share a partition hash (shown necessary); the owner is a member "
             "of the list; a configured node keeps a span iff it is the owner and otherwise forwards to the owner; no node ever "
             "forwards to its own shard; in a stable cluster every span is collected by the owner after at most one hop; empty "
             "lists are refused, an unloaded sharder panics. Model tied to sharder/deterministic.go and route.processEvent by "
             "replaying generated cluster histories on real sharders and routers and comparing every answer, plus a monitor on "
             "the implementation's own answers.",
        note="Trusted: Lean kernel; the Go harness/oracle differential check (sampled, not exhaustive); wyhash as an arbitrary "
             "function; the repo's mocks for peers, collector and transmissions; network delivery of a forwarded span to the "
             "node whose instance id equals the target address.",
        technique="Lean 4 proof (characterisation of the max-hash scan over sorted tables, set-level uniqueness) + "
                  "model/implementation correspondence check",
    ),
    assumptions=[
        "TieFree: no two different addresses of a peer list share a partition hash (a 64-bit wyhash collision among at most "
        "len+50 values); proved necessary for agreement under the unstable sort",
        "all nodes of a cluster see the same list (as a multiset); Start succeeded on each node, i.e. its instance id is in "
        "its list; a forwarded span reaches the node whose instance id is the target address",
        "each sharder method is atomic under peerLock; concurrent reloads during Start's retry loop are not modelled",
        "Start on a node that cannot find itself (25 s of real sleeps) is exercised only in the thorough tier",
    ],
)
