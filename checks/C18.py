def _times(c):
    """(final instant, instant of the last membership change, d, ttl) of a net case, from its ops"""
    h = dict(kv.split("=", 1) for kv in c["header"].split(" ") if "=" in kv)
    now = last = 0
    for l in c["lines"]:
        if not l.startswith("op "):
            continue
        p = l.split(" ")
        if p[1] == "adv":
            now += int(p[2])
        elif p[1] in ("start", "stop", "crash"):
            last = now
    return now, last, int(h.get("d", 0)), int(h.get("ttl", 0))


def nontrivial(c):
    ops = [l.split(" ")[1] for l in c["lines"] if l.startswith("op ")]
    if "kind=codec" in c["header"]:
        return "enc" in ops
    if ops.count("start") < 2 or "tick" not in ops or "deliver" not in ops:
        return False
    now, last, d, ttl = _times(c)
    return now > last + d + ttl          # the history runs past the convergence bound of the theorem


SPEC = dict(
    property="C18",
    component="peers",
    props_module="Refinery.Props.C18",
    gen_module="Refinery.Gen.Peers",
    quick=dict(cases=320, len=60, shards=4),
    thorough=dict(cases=48000, len=80, shards=16),
    nontrivial=nontrivial,
    rule="cases = (85%) timed cluster histories on 2-5 real RedisPubsubPeers in one process: node start, refresh ticks of the real "
         "Ready() goroutine (hand-fired ticker), graceful stop (real stop()), crash, restarts under a new instance id, transient publish failures (pubfail: the pubsub returns an error for the next k Publish calls; 30% of histories), the hand-fired ticker honouring the period the code gives it (NewTicker / Reset), every published "
         "message delivered to every running node's real listen callback after a harness-chosen delay in [0,d] (0 and d over-weighted; "
         "order across messages arbitrary), GetPeers of the nodes, and the list last seen by a callback registered with RegisterUpdatedPeersCallback, observed after every step and at the exact expiry instants (+1 ns); "
         "25% of them 'chaos' (lost / late / duplicated deliveries, skipped refreshes, junk and old-format messages, odd ids) where only "
         "model = implementation is compared; (15%) codec streams of arbitrary byte strings through marshal/unmarshal. "
         "non-trivial = a codec case with an enc op, or a cluster history with >= 2 nodes, a refresh and a delivery that runs past "
         "lastChange + d + TTL; distinct by transcript hash",
    trusted_base=["clockwork.FakeClock inside the peer map; the harness' own PubSub and hand-fired Ticker stand in for Redis and the wall-clock ticker",
                  "publicAddr (address construction) is outside the model: the address is taken from GetInstanceID()",
                  "Go map / slices.Sort semantics (association list, byte-wise lexicographic insertion sort)"],
    assumptions=["Redis delivers every published message to every subscribed node within d (<= 6 s for the instantiated theorems) - real Redis pub/sub is at-most-once; loss is outside the theorems (exercised only as model = implementation in chaos cases)",
                 "instance ids are unique among nodes; a live node publishes no unregister",
                 "each listen / GetPeers call is atomic (MapWithTTL holds its mutex per method; concurrent callbacks of pubsub_goredis are modelled as an arbitrary order of atomic steps)",
                 "checkHash's hash (wyhash chained over the id list) is a parameter: the model compares id lists, i.e. assumes the hash is injective on the lists that occur and never 0; an empty instance id is excluded (hashing no bytes returns the seed, so it does not change the hash) - ids are 8 hex digits in main.go",
                 "registered callbacks run in goroutines of their own; the harness awaits them, so 'what the callback saw' is GetPeers() immediately after the handled message"],
    manifest=dict(
        text="Lean theorems over every event list a node can experience (any order of deliveries, delays <= d, GetPeers calls anywhere): "
             "presence = most recently handled command is a register no older than PeerEntryTimeout; stale entries gone after T0+d+TTL; live, "
             "refreshing nodes (and the node itself) always listed after one refresh+d; peer list = live set after T0+d+TTL, with the code's "
             "constants and the side condition refresh+jitter+d<TTL discharged on them. The codec round-trip (split at the last comma) is proved "
             "for every address and every comma-free id, with the converse (ids are generated as 8 hex digits in cmd/refinery/main.go); a live "
             "node is listed under its exact address whatever bytes it contains. Model tied to "
             "pubsub_redis.go / mapttl.go by replaying generated cluster histories on real RedisPubsubPeers instances (real listen, Start, Ready "
             "goroutine, stop, GetPeers, marshal/unmarshal) and comparing every observation, plus a monitor of the theorems' conclusions on the "
             "implementation's own peer lists.",
        note="Trusted: Lean kernel; differential harness (sampled); delivery within d is an assumption about Redis, not checked.",
        technique="Lean 4 proof (simulation invariant + history characterisation, induction over event lists) + model/implementation correspondence check",
    ),
)
