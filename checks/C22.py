def nontrivial(c):
    ops = [l.split(" ")[1] for l in c["lines"] if l.startswith("op ")]
    return "epoch" in ops

SPEC = dict(
    property="C22",
    component="evtime",
    props_module="Refinery.Props.C22",
    quick=dict(cases=800, len=40, shards=4),
    thorough=dict(cases=80000, len=40, shards=16),
    nontrivial=nontrivial,
    rule="cases = sequences of timestamp inputs over 2001..2286: integer epochs of 10..19 digits (10/13/16/19 weighted) through the "
         "event-time header path and the JSON batch path, RFC 3339 strings with zone offsets, msgpack timestamp-32/64/96 bytes through "
         "the msgpack batch unmarshaller, outgoing msgpack time of transmit's batch event, plus out-of-scope strings; "
         "non-trivial = contains an integer-epoch input; distinct by transcript hash",
    trusted_base=["Go time.Parse / time.Unix / time.Format (RFC 3339 handling is not modelled)",
                  "tinylib/msgp ReadTimeBytes / AppendTimeExt are modelled by decodeTs/encodeTs and compared byte-for-byte on generated instants",
                  "fastjson string extraction in the JSON batch path"],
    assumptions=["the Timestamp field of types.Event is carried unchanged from the router through the collector to the transmission (plumbing not modelled)",
                 "instants before 1970 (negative ts96 seconds) are outside the property's range"],
    manifest=dict(
        text="Lean theorems for all digit strings of length 10..19 (epoch_exact: parsed instant = the written number read as seconds+fraction, exactly) "
             "and all instants (ext_roundtrip: msgpack timestamp encode/decode in all three wire forms), composed in epoch_forwarded_exact; "
             "model tied to route.getEventTime (header + JSON batch paths), route.batchedEvent.UnmarshalMsg and transmit.batchedEvent.MarshalMsg "
             "by replaying generated inputs on the real functions; the monitor checks the implementation's instant against the digits themselves.",
        note="Trusted: Lean kernel; differential harness (sampled); Go time package; msgp library modelled and compared, not verified.",
        technique="Lean 4 proof (arithmetic on digit lists / big-endian bytes) + model/implementation correspondence check",
    ),
)
