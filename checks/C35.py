"""C35 — concurrent components never race on shared state (partial).

No transcript harness: the decision procedure is
  1. harness/locks-extract (Go, go/ast + go/types with a stub importer) regenerates
     lean/Refinery/Gen/Access.lean from the current tree: every lexical access to a field of the
     tracked structs with the mutexes of the same receiver that are lexically held;
  2. `lake build Refinery.Props.C35`: discipline_sound (all traces of the abstract model),
     table_sound, facts_comply / fields_covered / unresolved_reviewed (decided over the regenerated
     facts against the hand-written table lean/Refinery/Model/LocksTable.lean);
  3. lean/Oracle/Locks.lean (interpreted) names every fact that does not comply;
  4. harness/cmd/races (real components, `go build -race`): quick tier = every scenario once for
     0.8 s (in the background, while Lean builds) plus a longer directed run when step 2/3 found
     something unlisted; thorough = every scenario twice for 4 s.  A race report is the replay; it is
     classified through the access facts of the two racing source lines.  A run that times out is
     inconclusive (evidence), never an alarm.
"""
import hashlib, json, os, re, shutil, subprocess, time

PROP = "C35"
MODULE = "Refinery.Props.C35"

# which scenarios exercise the fields of a struct
SCENARIOS = ["collector", "sentcache", "stress", "transmit", "config", "watcher", "peers", "sharder", "metrics", "envcache"]
STRUCT_SCENARIOS = {
    "InMemCollector": ["collector"], "CollectorWorker": ["collector"], "SamplerFactory": ["collector"],
    "StressRelief": ["stress", "collector"], "cuckooSentCache": ["sentcache", "collector"],
    "CuckooTraceChecker": ["sentcache", "collector"], "Router": ["envcache"], "environmentCache": ["envcache"],
    "DirectTransmission": ["transmit"], "eventBatch": ["transmit"], "RedisPubsubPeers": ["peers"],
    "fileConfig": ["config", "watcher"], "ConfigWatcher": ["watcher"], "MultiMetrics": ["metrics", "stress"],
    "DeterministicSharder": ["sharder"],
}


def sig_of(loc, fn):
    return "%s:race:%s:%s" % (PROP, loc, fn)


def short(fn):
    """github.com/honeycombio/refinery/collect/cache.(*cuckooSentCache).Resize -> cuckooSentCache.Resize ;
    pkg.(*T).M.func1 -> T.M$1 (the extractor's name for the first function literal)"""
    fn = fn.rsplit("/", 1)[-1]
    fn = fn.split(".", 1)[1] if "." in fn else fn
    fn = fn.replace("(*", "").replace(")", "")
    fn = re.sub(r"\.func(\d+)(\.\d+)*$", lambda m: "$" + m.group(1), fn)
    fn = re.sub(r"\.gowrap\d+$", "", fn)
    return fn


def parse_race_reports(text, repo):
    """-> list of {text, accesses: [ {head, frames:[(fn, relfile, line)]} x2 ]}"""
    out = []
    for block in text.split("=================="):
        if "WARNING: DATA RACE" not in block:
            continue
        secs = re.split(r"\n\s*\n", block.strip("\n"))
        acc = []
        for s in secs:
            lines = s.strip("\n").split("\n")
            head = lines[0].strip()
            if head.startswith("WARNING: DATA RACE") and len(lines) > 1:
                lines = lines[1:]
                head = lines[0].strip()
            if not re.match(r"(Previous )?(atomic )?(read|write)", head, re.I):
                continue
            frames = []
            i = 1
            while i + 1 < len(lines):
                m1 = re.match(r"\s+(\S+)\(", lines[i])
                m2 = re.match(r"\s+(/\S+):(\d+)", lines[i + 1])
                if m1 and m2:
                    path = m2.group(1)
                    if path.startswith(repo + "/") and "/cmd/vh_" not in path and "/internal/verifkit/" not in path \
                            and "zz_verif_" not in path and not path.endswith("_test.go"):
                        frames.append((m1.group(1), os.path.relpath(path, repo), int(m2.group(2))))
                    i += 2
                else:
                    i += 1
            acc.append({"head": head.split(" by ")[0], "frames": frames})
        if len(acc) >= 2:
            out.append({"text": block.strip("\n")[:6000], "accesses": acc[:2]})
    return out


QUICK_MS = 800          # per scenario in the quick tier (the seeded aliasing bug shows in 200 ms)
QUICK_PARALLEL = 3
QUICK_TIMEOUT = 90      # a run that is merely slow under load is inconclusive, never an alarm


def run_scenarios(vc, rbin, workdir, scenarios, ms, rd, seed, procs, parallel, timeout):
    """-> (race reports, {scenario#round: last output lines}, inconclusive runs, completed runs)"""
    from concurrent.futures import ThreadPoolExecutor

    def one(sc):
        tag = "race-%s-%d-%d" % (sc, rd, ms)
        logp = os.path.join(workdir, tag)
        env = dict(os.environ, GORACE="halt_on_error=0 exitcode=0 history_size=3 log_path=" + logp)
        timed_out = False
        try:
            p = subprocess.run([rbin, "-ms", str(ms), "-seed", str(seed + rd), "-procs", str(procs), "-scenario", sc],
                               stdout=subprocess.PIPE, stderr=subprocess.STDOUT, text=True, env=env, timeout=timeout)
            out = p.stdout
        except subprocess.TimeoutExpired as e:
            out = e.stdout.decode("utf-8", "replace") if isinstance(e.stdout, bytes) else (e.stdout or "")
            timed_out = True
        text = ""
        for fn in os.listdir(workdir):
            if fn.startswith(tag + "."):
                text += open(os.path.join(workdir, fn)).read()
        reps = []
        for rep in parse_race_reports(text, vc.REPO):      # a report written before a timeout is still a report
            rep["scenario"] = sc
            reps.append(rep)
        crashed = ("fatal error: " in out) or ("panic=" in out) or ("\npanic: " in out) or out.startswith("panic: ")
        inc = None
        if crashed:          # the real code crashed (concurrent map access, index out of range, …)
            m = re.search(r"(fatal error: [^\n]*|panic[=:] ?[^\n]*)", out)
            frames = [(a, os.path.relpath(b, vc.REPO), int(c)) for a, b, c in
                      re.findall(r"\n(\S+)\([^\n]*\)\n\s+(%s/\S+):(\d+)" % re.escape(vc.REPO), out)
                      if "/cmd/vh_" not in b]
            reps.append({"scenario": sc, "text": out[-6000:], "fatal": m.group(0) if m else "crash",
                         "accesses": [{"head": "fatal", "frames": frames[:6]}, {"head": "fatal", "frames": []}]})
        elif timed_out or "RACES-DONE" not in out:
            inc = "%s#%d (%d ms): %s" % (sc, rd, ms, "timed out after %d s" % timeout if timed_out else "did not finish")
        return sc, reps, out.strip().splitlines()[-3:], inc

    reports, outs, incs, done = [], {}, [], 0
    with ThreadPoolExecutor(max_workers=max(1, parallel)) as ex:
        for sc, reps, tail, inc in ex.map(one, scenarios):
            reports.extend(reps)
            outs["%s#%d@%dms" % (sc, rd, ms)] = tail
            if inc:
                incs.append(inc)
            else:
                done += 1
    return reports, outs, incs, done


def custom(vc, spec, tier, seed, replay):
    t0 = time.time()
    suffix = "" if vc.REPO == "/repo" else "-" + hashlib.sha1(vc.REPO.encode()).hexdigest()[:10]
    workdir = os.path.join(vc.CACHE, "run", PROP + suffix)
    shutil.rmtree(workdir, ignore_errors=True)
    os.makedirs(workdir, exist_ok=True)
    known = vc.load_known()
    known_sigs = {k["signature"]: k for k in known["finding"] if k.get("property") == PROP}
    # the -race harness is built (and, in the quick tier, every scenario run once) in the background
    from concurrent.futures import ThreadPoolExecutor as _TPE
    bg = _TPE(max_workers=2)
    bg_build = bg.submit(vc.go_build, "races", True)
    bg_quick = None
    if tier != "thorough" and not replay:
        def _quick():
            rb, _ = bg_build.result()
            if not rb:
                return [], {}, [], 0
            return run_scenarios(vc, rb, workdir, SCENARIOS, QUICK_MS, 0, seed, 8, QUICK_PARALLEL, QUICK_TIMEOUT)
        bg_quick = bg.submit(_quick)
    broken, violations, known_hit = [], [], {}
    cov = {}

    # ---------------------------------------------------------------- 1. extractor
    xdir = os.path.join(vc.VERIF, "harness", "locks-extract")
    xbin = os.path.join(vc.CACHE, "bin", "locks-extract")
    os.makedirs(os.path.dirname(xbin), exist_ok=True)
    tmpbin = xbin + ".%d" % os.getpid()
    srcs = [os.path.join(xdir, f) for f in ("main.go", "go.mod")]
    t1 = time.time()
    if os.path.exists(xbin) and os.path.getmtime(xbin) > max(os.path.getmtime(f) for f in srcs):
        class _R:                                   # binary is newer than its sources
            returncode, stdout = 0, ""
        r = _R()
        tmpbin = None
    else:
        r = vc.sh(["go", "build", "-o", tmpbin, "."], cwd=xdir, env=vc.GOENV, timeout=600)   # standard library only
    vc.log("[go build locks-extract] rc=%d %.1fs%s" % (r.returncode, time.time() - t1, " (up to date)" if tmpbin is None else ""))
    facts_json = os.path.join(workdir, "access.json")
    extracted = None
    if r.returncode != 0:
        broken.append("facts:locks-extract build (%s)" % r.stdout[-300:])
    else:
        if tmpbin:
            os.replace(tmpbin, xbin)
        gen = os.path.join(vc.LEAN, "Refinery", "Gen", "Access.lean")
        r = vc.sh([xbin, "-repo", vc.REPO, "-spec", os.path.join(xdir, "spec.json"), "-lean", gen, "-json", facts_json],
                  timeout=300)
        vc.log("[locks-extract] rc=%d %s" % (r.returncode, r.stdout.strip()[-200:]))
        if r.returncode != 0:
            broken.append("facts:locks-extract (%s)" % r.stdout.strip()[-300:])
        else:
            extracted = json.load(open(facts_json))
    by_line = {}
    if extracted:
        for f in extracted["facts"]:
            by_line.setdefault((f["file"], f["line"]), []).append(f)

    # ---------------------------------------------------------------- 2. lean
    vc.sh([os.path.join(vc.VERIF, "tools", "mklake")])
    ok_tbl, tout = (False, "") if not extracted else vc.lake_build(["Refinery.Model.LocksTable"])
    report = []
    if extracted and not ok_tbl:
        errs = [l for l in tout.splitlines() if l.startswith("error")]
        broken.append("table:Refinery.Model.LocksTable no longer elaborates against the regenerated facts (%s)" % "; ".join(errs[:3])[:300])
        vc.log(tout[-2000:])
    fails, uncovered, unreviewed, stale, stats = [], [], [], [], {}
    rep_future = None
    if ok_tbl:       # the report tool runs while the theorems are built and audited
        from concurrent.futures import ThreadPoolExecutor
        rep_future = ThreadPoolExecutor(max_workers=1).submit(
            vc.sh, ["lake", "env", "lean", "--run", "Oracle/Locks.lean"], vc.LEAN, None, 600)
    ok_pr, pout = (False, "") if not ok_tbl else vc.lake_build([MODULE])
    thms, problems = {}, []
    if ok_tbl and not ok_pr:
        errs = [l for l in pout.splitlines() if l.startswith("error")]
        names = sorted(set(re.findall(r"C35\.lean:(\d+)", "\n".join(errs))))
        src = open(os.path.join(vc.LEAN, "Refinery", "Props", "C35.lean")).read().splitlines()
        which = []
        for n in names:
            for i in range(int(n) - 1, -1, -1):
                m = re.match(r"theorem (\w+)", src[i])
                if m:
                    which.append(m.group(1))
                    break
        broken.append("proof:%s %s (%s)" % (MODULE, ",".join(sorted(set(which))) or "?", "; ".join(errs[:2])[:240]))
        vc.log(pout[-2500:])
    elif ok_pr:
        t1 = time.time()
        thms, problems = vc.audit(MODULE)
        vc.log("[audit] %.1fs" % (time.time() - t1))
        for pr in problems:
            broken.append("audit:" + pr)

    if rep_future is not None:
        r = rep_future.result()
        report = r.stdout.splitlines()
        if "REPORT-DONE" not in report:
            broken.append("report:Oracle/Locks.lean did not complete (%s)" % r.stdout[-300:])
        for l in report:
            kv = dict(p.split("=", 1) for p in l.split(" ")[1:] if "=" in p)
            if l.startswith("FAIL "):
                fails.append(kv)
            elif l.startswith("UNCOVERED "):
                uncovered.append(kv["field"])
            elif l.startswith("UNREVIEWED "):
                unreviewed.append((kv["name"], kv["fn"]))
            elif l.startswith("STALE-KNOWN "):
                stale.append(kv)
            elif l.startswith("STATS "):
                stats = {k: int(v) for k, v in kv.items()}

    # ---------------------------------------------------------------- 3. classify the static verdicts
    new_fails = []          # failing facts that are not listed findings
    for kv in fails:
        sig = sig_of(kv["loc"], kv["fn"])
        if sig in known_sigs:
            known_hit.setdefault(sig, "static: %s %s of %s in %s holds [%s], discipline %s" % (
                kv["kind"], "access", kv["loc"], kv["fn"], kv.get("held", "[]").strip("[]"), kv["discipline"]))
        else:
            new_fails.append(kv)
    for f in uncovered:
        broken.append("fields_covered: field %s has no discipline in LocksTable.lean" % f)
    for n, fn in unreviewed:
        broken.append("unresolved_reviewed: selector .%s in %s could not be resolved and is not reviewed" % (n, fn))

    # ---------------------------------------------------------------- 4. race-detector scenarios
    # quick: every scenario once, short (QUICK_MS), a few at a time, started in the background right
    #        at the beginning (see `bg` above) — field-level facts cannot see slice/backing-array
    #        aliasing, so some dynamic run is always needed; plus, when a static fact fails that is
    #        not a listed finding, the scenarios of its struct again, longer (directed search).
    # thorough: every scenario, 4 s, two rounds (8 and 4 Ps), one after the other.
    races, race_runs, scen_out, inconclusive, want = [], 0, {}, [], []

    def take(res):
        nonlocal race_runs
        reps, outs, inc, n = res
        races.extend(reps)
        scen_out.update(outs)
        inconclusive.extend(inc)
        race_runs += n

    rbin, gout = bg_build.result()
    if not rbin:
        broken.append("search:harness-build(vh_races -race) (%s)" % gout[-300:])
        vc.log(gout[-2000:])
    elif replay:
        rp = json.load(open(replay))
        take(run_scenarios(vc, rbin, workdir, rp.get("scenarios") or SCENARIOS, 3000, 0, seed, 8, 1, 240))
    elif tier == "thorough":
        for rd in range(2):
            take(run_scenarios(vc, rbin, workdir, SCENARIOS, 4000, rd, seed, 8 if rd == 0 else 4, 1, 240))
    else:
        take(bg_quick.result())
        want = []
        for kv in new_fails:
            for sc in STRUCT_SCENARIOS.get(kv["loc"].split(".")[0], []):
                if sc not in want:
                    want.append(sc)
        if want:
            take(run_scenarios(vc, rbin, workdir, want, 1500, 1, seed, 8, 1, 240))
    # classify race reports through the access facts of the two racing lines
    race_new, race_known = {}, {}
    for rep in races:
        cands = []
        for a in rep["accesses"]:
            if a["frames"]:
                fn, fl, ln = a["frames"][0]
                for f in by_line.get((fl, ln), []):
                    cands.append(f)
        sigs = [sig_of(f["loc"], f["fn"]) for f in cands]
        # a report is explained by a listed finding when one of the two racing lines accesses a
        # location that has one (the other line may be any reader/writer of it, or the inside of the
        # object the racy pointer refers to)
        failing_now = {sig_of(kv["loc"], kv["fn"]) for kv in new_fails}
        fresh_hit = [s for s in sigs if s in failing_now]
        if fresh_hit:        # one of the two lines is an unlisted failing access: this is its replay
            race_new.setdefault(fresh_hit[0], rep)
            continue
        hit = [s for s in sigs if s in known_sigs]
        if not hit:
            locs = {f["loc"] for f in cands}
            hit = [s for s in known_sigs if s.split(":")[2] in locs][:1]
        if hit:
            for s in hit:
                race_known.setdefault(s, rep)
            continue
        failing_sigs = {sig_of(kv["loc"], kv["fn"]) for kv in new_fails}
        locs = {f["loc"] for f in cands}
        # attribute the report to the statically failing access of the same location when there is one
        pick = [s for s in sigs if s in failing_sigs] or \
               [sig_of(kv["loc"], kv["fn"]) for kv in new_fails if kv["loc"] in locs] or sigs
        if pick:
            sig = pick[0]
        else:
            tops = [short(a["frames"][0][0]) if a["frames"] else "?" for a in rep["accesses"]]
            sig = "%s:race:untracked:%s-vs-%s" % (PROP, tops[0], tops[1])
            if sig in known_sigs:
                race_known.setdefault(sig, rep)
                continue
        race_new.setdefault(sig, rep)
    for s, rep in race_known.items():
        known_hit[s] = "race detector (%s scenario): %s / %s" % (
            rep["scenario"], *[(short(a["frames"][0][0]) + " " + "%s:%d" % a["frames"][0][1:]) if a["frames"] else "?" for a in rep["accesses"]])

    # ---------------------------------------------------------------- 5. decide
    for sig, rep in race_new.items():
        rp = vc.write_replay(PROP, "%d-%s-%s" % (seed, re.sub(r"\W+", "_", sig)[-44:], hashlib.sha1(sig.encode()).hexdigest()[:6]), {
            "property": PROP, "kind": "data-race", "signature": sig, "seed": seed, "tier": tier,
            "scenarios": [rep["scenario"]], "report": rep["text"].splitlines(),
            "accesses": rep["accesses"],
            "failing_facts_of_this_location": [kv for kv in new_fails if kv["loc"] == sig.split(":")[2]],
            "rerun": "tools/check %s --replay <this file>   (runs vh_races_race -scenario %s under the race detector)" % (PROP, rep["scenario"])})
        violations.append(("data race %s (scenario %s)" % (sig, rep["scenario"]), rp, False))
    confirmed = set(race_new)
    confirmed_locs = {s.split(":")[2] for s in race_new}
    for kv in new_fails:
        sig = sig_of(kv["loc"], kv["fn"])
        if sig in confirmed or kv["loc"] in confirmed_locs:
            continue            # the race report on this location is the replay for all its failing accesses
        where = [f for f in (extracted or {}).get("facts", []) if f["loc"] == kv["loc"] and f["fn"] == kv["fn"] and f["kind"] == kv["kind"]]
        rp = vc.write_replay(PROP, "%d-static-%s" % (seed, hashlib.sha1((sig + kv["kind"]).encode()).hexdigest()[:8]), {
            "property": PROP, "kind": "broken-obligation", "signature": sig, "seed": seed, "tier": tier,
            "no_longer_checks": "facts_comply: %s of %s in %s (held: %s) does not comply with discipline %s (role of the function: %s)" % (
                kv["kind"], kv["loc"], kv["fn"], kv.get("held"), kv["discipline"], kv["role"]),
            "where": ["%s:%d" % (f["file"], f["line"]) for f in where][:8],
            "scenarios": STRUCT_SCENARIOS.get(kv["loc"].split(".")[0], []),
            "race_search": "scenarios %s ran under the race detector without a report involving this access" % want if want else "not run",
            "rerun": "tools/check %s" % PROP})
        violations.append(("facts_comply: %s of %s in %s, held %s, discipline %s" % (kv["kind"], kv["loc"], kv["fn"], kv.get("held"), kv["discipline"]), rp, True))
    rest = [b for b in broken if not (b.startswith("proof:") and "facts_comply" in b and (new_fails or race_new))]
    if any(b.startswith("proof:") and "full_statement_status" in b for b in broken):
        rest.append("full_statement_status: the flags fix1..fix7 of lean/Refinery/Model/LocksTable.lean do not match the tree "
                    "(all fixes landed <-> no access fact violates its discipline); failing facts now: %d" % len(fails))
    if rest and not violations:
        rp = vc.write_replay(PROP, "%d-broken" % seed, {
            "property": PROP, "kind": "broken-obligation", "seed": seed, "tier": tier,
            "no_longer_checks": rest, "rerun": "tools/check %s" % PROP})
        violations.append(("no longer shown to hold: " + "; ".join(rest)[:400], rp, True))

    for sig in sorted(known_hit):
        print("KNOWN-FINDING: property=%s %s" % (PROP, known_sigs[sig].get("what", sig)))
    for what, rp, nofail in violations:
        vc.log("violation:", what)
        print("VIOLATION property=%s replay=%s%s" % (PROP, rp, " no-failing-input-found" if nofail else ""))

    # ---------------------------------------------------------------- 6. evidence
    obligations = len([t for t in thms if t.startswith(MODULE + ".")]) if thms else 0
    discharged = obligations if ok_pr and not problems else 0
    if not ok_pr:
        obligations = max(obligations, 1)
    nfacts = stats.get("nontrivial", 0)
    samples = []
    if extracted:
        seen = set()
        for f in extracted["facts"]:
            k = (f["loc"], f["fn"], f["kind"])
            if f["held"] and k not in seen and len(samples) < 4:
                seen.add(k)
                samples.append({"fact": "%s %s in %s at %s:%d holding %s" % (f["kind"], f["loc"], f["fn"], f["file"], f["line"],
                                ["%s:%s" % (h["mutex"], h["mode"]) for h in f["held"]]), "verdict": "complies"})
    for kv in fails[:3]:
        samples.append({"fact": "%s %s in %s holding %s" % (kv["kind"], kv["loc"], kv["fn"], kv.get("held")),
                        "discipline": kv["discipline"], "verdict": "violates (listed finding)" if sig_of(kv["loc"], kv["fn"]) in known_sigs else "violates"})
    for rep in (list(race_known.values()) + list(race_new.values()))[:2]:
        samples.append({"race_report": rep["text"].splitlines()[:24], "scenario": rep["scenario"]})
    cov.update({
        "obligations": obligations, "discharged": discharged,
        "checker_cmd": "cd /verif/lean && lake build %s && lake env lean --run Audit.lean %s" % (MODULE, MODULE),
        "trusted_base": spec.get("trusted_base", []) + [
            "Lean 4.33.0 kernel", "axioms: " + ",".join(sorted({a for axs in thms.values() for a in axs}) or ["none"])],
        "theorems": {k: v for k, v in sorted(thms.items())},
        "evaluations": (stats.get("nontrivial", 0) and len({(f["loc"], f["fn"], f["kind"], json.dumps(f["held"]), f["fresh"]) for f in extracted["facts"]})) if extracted else 0,
        "distinct_nontrivial": nfacts,
        "rule": spec["rule"],
        "traces_validated_against_impl": race_runs,
        "race_runs": {"completed": race_runs, "inconclusive": inconclusive,
                      "quick_ms_per_scenario": QUICK_MS, "scenarios": SCENARIOS if (tier == "thorough" or bg_quick) else sorted(scen_out)},
        "fact_stats": stats,
        "analysed_files": len(extracted["files"]) if extracted else 0,
        "tracked_fields": len(extracted["fields"]) if extracted else 0,
        "unresolved_selectors": [(u["name"], u["fn"], "%s:%d" % (u["file"], u["line"])) for u in (extracted or {}).get("unresolved", [])],
        "failing_facts": fails,
        "stale_known_entries": stale,
        "race_scenarios_run": sorted(scen_out),
        "race_scenario_output": scen_out,
        "race_reports": len(races),
        "race_reports_unlisted": sorted(race_new),
        "known_findings_reproduced": sorted(known_hit),
        "known_findings_reproduced_by_race_detector": sorted(race_known),
        "samples": samples or [{"note": "nothing extracted"}],
        "broken": broken,
    })
    ev = {"property_id": PROP, "tier": tier, "seed": seed, "level": "proof", "coverage": cov,
          "assumptions": spec.get("assumptions", []), "wall_s": round(time.time() - t0, 2), "violations": len(violations)}
    vc.write_evidence(PROP, ev)
    vc.log("[%s] tier=%s facts=%d nontrivial=%d failing=%d (unlisted %d) theorems=%d race-runs=%d reports=%d violations=%d known=%d %.1fs" % (
        PROP, tier, cov["evaluations"], nfacts, len(fails), len(new_fails), obligations, race_runs, len(races), len(violations), len(known_hit), time.time() - t0))
    return 1 if violations else 0


SPEC = dict(
    property=PROP,
    component="races",
    props_module=MODULE,
    custom=custom,
    quick=dict(cases=0, len=0, shards=1),
    thorough=dict(cases=0, len=0, shards=1),
    rule="cases = lexical access facts regenerated from the current sources: (Struct.field, function, read|write|atomic, mutexes of "
         "the same receiver lexically held, fresh-object flag) for every selector of a field of the 15 tracked structs in every "
         "function and function literal of the non-test files of the 10 analysed packages; each fact is decided by "
         "factComplies against the discipline of its field (in the kernel by facts_comply, and again by the interpreted "
         "report tool that names failures); non-trivial = the verdict depends on synchronisation, i.e. anything but a plain "
         "read of an init-only field (counted by the report tool); evaluations = distinct facts; "
         "traces_validated_against_impl = race-detector scenario runs completed in this run (quick: every scenario once for 0.8 s; "
         "thorough: every scenario twice for 4 s; runs that time out under load are listed as inconclusive, not counted)",
    trusted_base=[
        "harness/locks-extract: lexical extraction (go/parser, go/ast, go/types with a stub importer); a dynamic access is assumed to be an "
        "instance of an extracted fact (Lean: structure Instance) — no aliasing, no inter-procedural lock passing except the `requires` "
        "table (environmentCache.addItem), no third-party code",
        "lean/Refinery/Model/LocksTable.lean: hand-written discipline per field, role per function, and harness/locks-extract/spec.json "
        "(tracked structs, mutating methods of cuckoo.Filter, constructors)",
        "Go memory model as rendered in Refinery.Locks (program order, Unlock→Lock / Unlock→RLock / RUnlock→Lock, go statement, join); "
        "channel edges are not modelled",
        "Go race detector (search aid only: a silent run proves nothing)",
    ],
    assumptions=[
        "role `init` (constructors, Start methods, helpers only they call): everything such a function does to an object happens-before any "
        "use of the object by another goroutine (facebookgo/startstop starts components in dependency order; goroutines a Start spawns read, "
        "after their creation, only what Start wrote before)",
        "role `teardown` (DirectTransmission.Stop and the sends it starts and waits for): runs after every user of the transmission has been "
        "stopped and joined (reverse start order; C36 covers what happens otherwise)",
        "named roles (collector worker, collector monitor, stress-relief ticker, sent-cache monitor): one goroutine at a time per object; "
        "successive incarnations (cuckooSentCache.Resize stops the monitor, waits, starts a new one) are ordered by that hand-over",
        "objects built by a composite literal or a listed constructor (newFileConfig) are not shared while the creating function still "
        "initialises them (`fresh` facts); composite-literal field initialisation is not an access",
        "a field that refers to an object which synchronises itself (lru.Cache, SetWithTTL, MapWithTTL, KeptReasonsCache, pool.Pool, "
        "channels, http.Client, the injected interfaces) is tracked as a variable only; what the object does inside is not analysed",
        "only the 15 tracked structs (InMemCollector, CollectorWorker, StressRelief, cuckooSentCache, CuckooTraceChecker, Router, "
        "environmentCache, DirectTransmission, eventBatch, RedisPubsubPeers, fileConfig, ConfigWatcher, MultiMetrics, SamplerFactory, DeterministicSharder) are "
        "covered statically; spans, traces and events handed over channels (ownership transfer) are covered only by the race-detector scenarios",
        "accesses through an expression whose type the stub importer cannot resolve are not seen; selectors that could be such accesses are "
        "listed (unresolvedSelectors) and must be reviewed by hand (obligation unresolved_reviewed)",
    ],
    manifest=dict(
        text="Lean theorem over all well-formed executions of an abstract model (threads, RW mutexes, plain/atomic accesses, spawn, join; "
             "happens-before as in the Go memory model): if every access complies with its location's discipline (lock m / confined to a "
             "role / atomic / init-only / owner-written under lock) no two conflicting accesses are unordered; a second theorem shows the "
             "lexical test implies compliance for every dynamic access that is an instance of a lexical fact. Tied to the code by a Go "
             "extractor that regenerates, on every run, every lexical access to a field of 15 structs of the concurrent components with "
             "the mutexes lexically held; `facts_comply` (kernel-decided) checks all of them against a hand-written discipline/role table, "
             "`fields_covered` that every field is classified. The full statement is tied to the fix flags of the table (theorem full_statement_status): the accesses "
             "still listed as findings break their discipline, each reproduced as a data race on the real code by race-detector scenarios (real collector+workers+stress "
             "relief+reload, sent cache, transmission, file config + watcher, peers, sharder, metrics).",
        note="Partial: the extraction is lexical (no aliasing, no inter-procedural lock passing, no third-party code, objects handed over "
             "channels not tracked) and the role table and lifecycle assumptions are trusted; the race detector is a search aid, not a proof.",
        technique="Lean 4 proof (happens-before argument over traces) + kernel-decided compliance of regenerated lexical lock facts + "
                  "Go race-detector scenarios as directed search",
    ),
)
