import re


def nontrivial(c):
    """under dry run a span of a would-be-dropped trace was forwarded (marker 0) and one of a kept trace (marker 1)"""
    m0 = m1 = False
    for l in c["lines"]:
        if l.startswith("obs ") and not l.startswith("obs w="):
            if re.search(r"\d+:\d+:0(,|;|$| )", l):
                m0 = True
            if re.search(r"\d+:\d+:1(,|;|$| )", l):
                m1 = True
    return m0 and m1


SPEC = dict(
    property="C05",
    component="collector",
    props_module="Refinery.Props.C05",
    quick=dict(cases=400, len=60, shards=4),
    thorough=dict(cases=12800, len=160, shards=16),
    nontrivial=nontrivial,
    rule="cases = the collector histories of C01/C02 (1-4 workers, ticks, ejections, late spans, reloads, resizes, stress-relief episodes); about a third start "
         "with DryRun on, 45 in 100 contain reloads of which 40 in 100 toggle DryRun; client sample rates 0,1,2,3,10; non-trivial = "
         "under dry run at least one span was forwarded with marker false (its trace would have been dropped) and one with "
         "marker true; TraceTimeout/SendDelay drawn per case from (10 s,2 s),(60 s,0.1 s),(1 s,1 s),(2 s,2 s),(1 s,3 s),(1 s,60 s) - i.e. also TraceTimeout <= SendDelay, where 60 in 100 spans are roots (root-first and single-span traces); distinct by transcript hash",
    trusted_base=["clockwork.FakeClock", "transmit.MockTransmission as the recording transmission",
                  "harness gate between send() and the real sendTraces goroutine (zz_verif_collector.go)",
                  "hashicorp LRU modelled as textbook LRU, cuckoo filter + recent-drop set modelled as an exact set "
                  "(both checked by the correspondence on every late span)"],
    manifest=dict(
        text="Lean theorems over all operation histories, samplers and worker assignments: with DryRun on throughout nothing is "
             "discarded and every accepted span whose trace left the buffer and tracesToSend was forwarded exactly once (every "
             "decision path, late spans, dropped traces); every span forwarded under dry run keeps the client's sample rate (0 = 1) "
             "and carries meta.refinery.dryrun.kept = a decision the sampler made for its trace (the decision, if remembered); the "
             "marker is never set outside dry run.  Model tied to collect.go send / sendTraces / dealWithSentTrace / "
             "mergeTraceAndSpanSampleRates by driving a real InMemCollector and comparing rate and marker of every span that "
             "reaches the recording transmission, plus monitors.",
        note="Trusted: Lean kernel; the differential check (sampled); each worker step atomic; the stress-relief exception is modelled and proved (spans in stressDropped).",
        technique="Lean 4 proof (invariants by induction over histories) + model/implementation correspondence check",
    ),
    assumptions=["each worker step (processSpan, sendExpiredTracesInCache, sendTracesEarly, reload branch) and each sendTraces "
                 "iteration runs to completion without interleaving inside it",
                 "which traces a tick/ejection takes is an input of the model (deadline arithmetic is C03/C07)",
                 "whether the node is stressed is an input (op `stress`); the stress level computation is C15; the router's "
                 "stressed branch (processEvent) is replicated by the harness: Stressed() -> ProcessSpanImmediately, else AddSpan",
                 "a trace decided with DryRun on and drained after a reload turned it off is forwarded unmarked (the code does "
                 "this; see Props/C02 dropped_never)"],
)
