RECORD = {"increment", "count", "gauge", "up", "down", "store", "conc"}


def nontrivial(c):
    ops = [l.split(" ")[1] for l in c["lines"] if l.startswith("op ")]
    if "register" not in ops or "get" not in ops:
        return False
    # a recording call followed (later) by a read-back
    first = next((i for i, o in enumerate(ops) if o in RECORD), None)
    return first is not None and "get" in ops[first + 1:]


SPEC = dict(
    property="C33",
    component="metrics",
    props_module="Refinery.Props.C33",
    quick=dict(cases=2000, len=80, shards=4),
    thorough=dict(cases=50000, len=80, shards=16),
    nontrivial=nontrivial,
    rule="cases = random call histories (register / increment / count / gauge / histogram / up / down / store / get, "
         "plus concurrent bursts of increments, counts, ups and downs from 2-16 goroutines read back at quiescence) on a "
         "real MultiMetrics with 0-2 child backends; 2-5 names per case so re-registration and name reuse are frequent; "
         "non-trivial = contains a Register, a recording call and a later Get; distinct by (header, transcript) hash",
    trusted_base=["Go sync.Map / sync/atomic: each Load, Store, LoadOrStore, Add is atomic (so a concurrent execution is a "
                  "linearisation of the calls)",
                  "math/big exact printing of integer-valued float64"],
    manifest=dict(
        text="Lean theorems over all call histories (= all linearisations of concurrent callers) on a model of the five "
             "sync.Maps of MultiMetrics: Get of a counter = sum of increments/counts (mod 2^64, as float64), monotone while "
             "in range, gauge = last value, up-down = ups minus downs, store = last stored, re-Register changes nothing, "
             "atomic adds commute. Full statements are refuted for the code as it is (Register stores a fresh zero entry: "
             "register;increment;register;get = 0) with proved partial versions and a proved characterisation (value since "
             "the most recent Register), and proved in full for Register with LoadOrStore. Model tied to "
             "metrics/multi_metrics.go by replaying generated histories, including concurrent bursts, on the real MultiMetrics "
             "and comparing every Get; a monitor checks the property's conclusions on the implementation's own answers.",
        note="Trusted: Lean kernel; the Go harness/oracle differential check (sampled, not exhaustive); atomicity of "
             "sync.Map/atomic operations. Gauge/Store payloads are integer-valued floats only.",
        technique="Lean 4 proof (per-name locality + list induction; refutations by kernel evaluation) + "
                  "model/implementation correspondence check incl. concurrent mode",
    ),
    assumptions=["each MultiMetrics method acts on the store through one atomic sync.Map/atomic operation per map it touches; "
                 "Register writes the type table and the value map in two steps, which the model treats as one",
                 "Gauge/Store values are generated as integers with |v| <= 2^53 (exact in float64); the code only stores and "
                 "returns their bits",
                 "up-down counters stay within int64 (each call changes them by 1)",
                 "child backends (Prometheus, OTel) never feed back into Get; they are replaced by NullMetrics/MockMetrics"],
)
