def nontrivial(c):
    ops = [l.split(" ")[1] for l in c["lines"] if l.startswith("op ")]
    fwd = any(l.startswith("obs sent ") or l.startswith("obs late ") or l.startswith("obs fwd ") for l in c["lines"])
    return fwd and ("decide" in ops or "decidex" in ops or "stress" in ops)

SPEC = dict(
    property="C04",
    component="decorate",
    props_module="Refinery.Props.C04",
    quick=dict(cases=400, len=40, shards=4),
    thorough=dict(cases=8000, len=60, shards=16),
    nontrivial=nontrivial,
    rule="cases = random histories on a real InMemCollector (2 parked workers, fake clock, recording MockTransmission): span arrivals "
         "(client rates 0,1,2,3,10,100,2^31-2,2^31-1 and random < 2^31; spans, span events, links, roots; a quarter of the payloads already carry meta.refinery.original_sample_rate -- equal to the client rate, different, or 0 -- in the payload's dedicated field as the router's ExtractMetadata leaves it), decisions of one trace by the "
         "environment's real sampler (deterministic 1/2/10/2^32+1 -- the last keeps next to nothing since fix 2ccad7d --, rules with keep/drop/zero rules) or by a scripted sampler answer "
         "(rates 1..2^64-1 incl. 2^32-1, 2^32, 2^32+1), the collector's own long-lived sendTraces goroutine handed one decided trace at a time (reloads between drains are seen by the same goroutine), ProcessSpanImmediately with the real "
         "StressRelief.GetSampleRate (SamplingRate 1,2,3,100,2^32,2^32+7; two trace ids whose hash is kept at 2^32), reloads toggling "
         "DryRun and the decoration options, plus stateless probes of the real samplers' rate floor (DeterministicSampler, RulesBasedSampler, "
         "DynamicSampler fed by a dynsampler answering -5..2^62) and of route's batch sample-rate conversion; non-trivial = at least one span was forwarded after a decision; distinct by transcript hash",
    trusted_base=["transmit.MockTransmission records what EnqueueSpan receives",
                  "types.Payload.All/Get report the fields that would be serialised",
                  "a sentinel trace synchronises the harness with the sendTraces goroutine",
                  "the harness makes one trace due by setting its SendBy to the (never advancing) fake clock's now before calling the real sendExpiredTracesInCache",
                  "Go uint is 64 bit (modelled as arithmetic mod 2^64)"],
    assumptions=["the sampler's answer (rate, keep, reason, key) and StressRelief.GetSampleRate's answer are parameters (recorded from the real objects and passed to the model)",
                 "decision records are not evicted (caches sized accordingly); the cuckoo drop filter has no false positives on the generated ids",
                 "additional attribute keys are not names of fields Refinery writes itself",
                 "one collector step at a time (workers parked; the sendTraces goroutine is given one trace and awaited)",
                 "dry run is outside C04 (the model covers it; the C04 monitor skips spans forwarded in dry run)"],
    manifest=dict(
        text="Lean theorems for all client rates in [0,2^31), all trace rates and all histories of the collector model: merge_formula "
             "(final = max(client,1)*traceRate, no overflow, final/original metadata fields, >= 1), its lifting to the three forwarding "
             "paths (ontime_merge/ontime_uses_trace_rate, late_merge, stress_uses_stress_rate), late_uses_record (after a keep decision "
             "with any rate a Go uint can hold and ANY later history a span of the trace is multiplied, in uint arithmetic, by the decision's "
             "rate; the record keeps it at full width since fix f8ca427), late_uses_stored_rate (< 2^32: exact product and metadata fields, "
             "both late paths), stress_later_spans, sampler_floor, router_rates; model tied to collect.go / collector_worker.go / "
             "cuckooSentCache.go by replaying generated histories on a real InMemCollector and comparing SampleRate and every metadata "
             "field of every forwarded span, plus a monitor that recomputes the expected rate from the sampler's own answer.",
        note="Trusted: Lean kernel; the Go harness/oracle differential check (sampled, not exhaustive); repository mocks (MockConfig, MockTransmission); sampler and stress-reliever answers are parameters.",
        technique="Lean 4 proof (arithmetic mod 2^64/2^32 + invariant over operation histories) + model/implementation correspondence check",
    ),
)
