def _first_sinks(c):
    out = set()
    for l in c["lines"]:
        if l.startswith("obs "):
            toks = l.split(" ")
            calls = [t for t in toks if "~" in t]
            err = next((t for t in toks if t.startswith("err=")), "err=?")
            out.add((calls[0].split("~")[0] if calls else "none") + ":" + err)
    return out


def nontrivial(c):
    # a case is non-trivial when its events took at least three different (first sink, error) routes
    return len(_first_sinks(c)) >= 3


SPEC = dict(
    property="C19",
    component="router",
    props_module="Refinery.Props.C19",
    gen_module="Refinery.Gen.Router",
    quick=dict(cases=400, len=12, shards=4),
    thorough=dict(cases=32000, len=16, shards=16),
    nontrivial=nontrivial,
    rule="cases = one node (real incoming + peer route.Router sharing a recording collector stub, recording upstream and "
         "peer transmissions, sharder.MockSharder or a real DeterministicSharder over MockPeers); each op pushes one event "
         "through the real processEvent: with/without trace id (configured field names, meta.trace_id, empty, non-string, "
         "several carriers), probe flag true/false/ill-typed/repeated, root/parent fields, built from a Go map or from "
         "msgpack bytes (or unparsable bytes), on either listener, any owner, stress off/not-processed/drop/keep, queues "
         "full or not; non-trivial = the case's events took at least three different (first sink, error) routes; "
         "distinct by transcript hash",
    trusted_base=["the harness' recording stubs: collector (collect.Collector: full/not-full queues, stress decision, "
                  "kept span handed to the upstream transmission as InMemCollector.ProcessSpanImmediately does), "
                  "transmissions (snapshot of the event at enqueue time), sharder wrapper (records WhichShard's graph)",
                  "sharder.MockSharder / sharder.DeterministicSharder + peer.MockPeers as the sharder (a parameter of the model)",
                  "tinylib/msgp encode/decode used by the harness to build msgpack payloads and to decode what "
                  "Payload.MarshalMsg emits for each sink"],
    manifest=dict(
        text="Lean theorems over all events (any field list under either payload encoding), both listeners, every sharder, "
             "stress state/decision and queue state: the outcomes' conditions are exhaustive and pairwise exclusive and the "
             "router takes an outcome exactly under its condition (probe => discarded; no trace id => one upstream call, event "
             "unchanged; stress drop => nothing; owner != self => one peer call addressed to the owner with key, dataset, "
             "environment, rate, timestamp, client fields and trace id unchanged; owner = self => AddSpan / AddSpanFromPeer by "
             "listener, a full queue being returned as ErrWouldBlock, never silently dropped); at most one router-made sink call "
             "per event (+ the collector's own upstream send of a stress-kept span); an event without a probe field is never a "
             "probe, one without a trace-id carrier never a span. Model tied to route.processEvent and Payload metadata "
             "extraction by replaying generated events on real routers and comparing every sink call (decoded MarshalMsg output) "
             "with the model, plus a monitor on the implementation's own observations.",
        note="Trusted: Lean kernel; the Go harness/oracle differential check (sampled, not exhaustive); recording stubs for "
             "collector/transmissions; the sharder as an arbitrary function. The stress-keep branch is modelled as coded (same "
             "event object queued upstream and re-addressed as probe); judging it is C16's subject.",
        technique="Lean 4 proof (case analysis of the decision function against independently stated conditions; fold invariants "
                  "for metadata extraction) + model/implementation correspondence check",
    ),
    assumptions=[
        "processEvent runs to completion for one event at a time (the router holds no state between events)",
        "payloads built from a Go map are only generated when the extracted trace id / root flag do not depend on Go's map "
        "iteration order (e.g. not two different trace-id fields at once); such inputs go through the msgpack encoding, whose "
        "byte order the model follows",
        "metadata keys other than meta.trace_id, meta.refinery.probe, meta.refinery.root, meta.stressed are not generated "
        "(re-encoding of the payload is C20's subject); unparsable payloads are outside the property (checked against the model only)",
    ],
)
