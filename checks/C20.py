def nontrivial(c):
    ops = [l.split(" ")[1] for l in c["lines"] if l.startswith("op ")]
    if "outq" in ops and "post" in ops and "ev" in ops:
        return True          # an event kept queued across later requests, then re-encoded
    if "out" not in ops or "ev" not in ops:
        return False
    # an event with a nested value or at least four fields, later re-encoded
    for l in c["lines"]:
        if l.startswith("op ev "):
            toks = l.split(" ")
            if any(t.startswith("m:") or t.startswith("a:") for t in toks) or (len(toks) > 3 and toks[3].isdigit() and int(toks[3]) >= 4):
                return True
    return False


SPEC = dict(
    property="C20",
    component="payload",
    props_module="Refinery.Props.C20",
    gen_module="Refinery.Gen.Payload",
    quick=dict(cases=2400, len=12, shards=4),
    thorough=dict(cases=240000, len=12, shards=16),
    nontrivial=nontrivial,
    rule="cases = a generated configuration (trace-ID / parent-ID names, 0-4 sampling-key fields) and a sequence of events with arbitrary "
         "payloads (nested maps and arrays to depth 3, every msgpack scalar family and width incl. float32, binary, nil, timestamps in the "
         "32/64/96-bit forms, binary and repeated keys, JSON numerals incl. > 2^53 and subnormals, keys that are sampling-key fields, ID "
         "fields, reserved metadata names with right and wrong types, near misses such as `meta.` and `meta.trace_idx`) ingested through the "
         "real /1/batch handler (msgpack, JSON), /1/events (JSON) and the OTLP metadata-only msgpack unmarshaller; then driven as the collector "
         "drives a payload (MemoizeFields of present / absent / reserved keys, Get, Exists, Set of the metadata and dry-run fields Refinery adds) "
         "and re-encoded by the real Payload.MarshalMsg; the bytes are decoded by an independent decoder (vmihailenco primitives) and compared "
         "with the model and, by the monitor, with the input; some spans are sent on to a peer-type router; "
         "15 % of the cases are request sequences: 1-3 events are posted through the real Router.batch (msgpack, peer-type router, JSON) and "
         "stay queued while 1-20 further requests of the same shape and size, of other sizes and of other encodings go through the same "
         "handlers in the same goroutine (the pooled HTTP body buffer is handed back and reused), and only then the queued events are "
         "re-encoded and compared with their re-encoding right after their own request; "
         "events also carry field names that differ only in letter case from a configured sampling-key / trace-ID / parent-ID field name, alone and next to the exact name in both orders; "
         "non-trivial = an event with a nested value or >= 4 fields that is re-encoded; distinct by transcript hash",
    trusted_base=["tinylib/msgp, valyala/fastjson, json-iterator at byte level (checked differentially: hand-written encoder in, independent decoder out)",
                  "JSON number parsing is an external function of the model: where the library's float64 is not strconv's the harness passes its value "
                  "and the monitor reports it",
                  "transmit's batch framing around Payload.MarshalMsg is C26/C22's subject and not driven here"],
    assumptions=["the model carries one flag per repair of types/payload.go (Model/Payload.lean `Fixed`, `fixedNow`); the oracle runs the flagged "
                 "variants, which are the unrepaired functions when no flag is set; `*_fixed` theorems state the full property for the repaired variants",
                 "client maps have unique keys (top level; values with repeated nested keys are compared only up to Go-map semantics)",
                 "application-defined msgpack extension types and non-string map keys are out of scope (not generated)",
                 "a timestamp that is the very last byte sequence of a request body is read by tinylib's NextType as a raw extension and survives; "
                 "the generator keeps timestamps off that position",
                 "marshal_extract_id is proved for the /1/batch, OTLP-msgpack and /1/events (JSON) ingestion states; OTLP protobuf translation "
                 "(husky) and the msgpack body of /1/events are not driven"],
    manifest=dict(
        text="Lean model of where a key lives when Payload.MarshalMsg runs (dedicated metadata field / memoised Go map / raw bytes), of "
             "MemoizeFields, Get, Exists, Set and of the sampling-key memoisation during extraction, with the reserved-name table regenerated from "
             "the code; theorems over all payloads, configurations and MemoizeFields/Set histories: marshal_extract_id (every non-reserved, "
             "not-Set key is emitted iff sent, with the client's value, raw or through Go and back), no_dup_keys, set_field_emitted, "
             "memo_roundtrip (partial; the full statement is refuted: a memoised msgpack timestamp is re-written as tinylib's private extension 5, "
             "reproduced on the real code); model tied to the code by generated payloads through the real handlers and the real MarshalMsg, decoded "
             "independently; the monitor compares the decoded output with the input itself.",
        note="Trusted: Lean kernel; differential harness (sampled); msgpack/JSON libraries at byte level.",
        technique="Lean 4 proof (invariant over reachable payload states, case analysis on the three storage classes) + "
                  "model/implementation correspondence check",
    ),
)
