def nontrivial(c):
    """a case is non-trivial when the real transmission sent at least one request (some batch was
    dispatched) and at least three events were enqueued"""
    enq = sum(1 for l in c["lines"] if l.startswith(("op enq ", "op cenq ", "op advh ")))
    sent = any(l.startswith("obs ") and " a=d" in l for l in c["lines"])
    return enq >= 3 and sent

SPEC = dict(
    property="C26",
    component="transmit",
    props_module="Refinery.Props.C26",
    gen_module="Refinery.Gen.Transmit",
    quick=dict(cases=128, len=40, shards=8),
    thorough=dict(cases=4800, len=60, shards=16),
    nontrivial=nontrivial,
    rule="cases = random schedules of EnqueueEvent / clock advance / Stop on a real DirectTransmission (fake clock, scripted "
         "network+server per request: 200 with full/short/long/per-event/undecodable bodies in JSON and msgpack, 4xx/5xx, 429/503 "
         "with 18 Retry-After forms incl. HTTP dates around 60 s, transport timeouts and errors, real client time-outs, closed "
         "connections), 1-4 destinations sharing host/key/dataset components, MaxBatchSize 1..16, BatchTimeout 1 ms..30 s, event "
         "sizes from 60 B to 5.3 MB incl. 1 000 000 +- 1, events that alone exceed the 5 MB request limit and sub-batches filled to 5 000 000 +- 1 bytes, marshal failures, "
         "sample rates 0..2^64-1 (2^31-1, 2^31, 2^32, 2^53+1, 2^63-1, ...) checked on the wire, unbuildable URLs, concurrent enqueues (2-8 goroutines released together at the batch-map lookup, on 1-3 destinations "
         "not seen before), events enqueued while a timer-flushed batch of the same destination is held in flight by the upstream "
         "(incl. batches over 5 MB that need two requests), occasionally a dataset named '..', '.' or '' (known finding: url.JoinPath cleans it away); clock advances land on / 1 ns around ticker instants and staleness instants; non-trivial = at least "
         "three events enqueued and at least one request observed; distinct by transcript hash",
    trusted_base=["net/http client + server (in-process over net.Pipe), klauspost zstd, tinylib/msgp, vmihailenco/msgpack",
                  "clockwork.FakeClock (tickers, Now); Clock.Sleep is recorded and returns immediately",
                  "url.JoinPath / url.PathEscape (destinations whose URL cannot be built are a parameter of the model)",
                  "time.ParseDuration / http.ParseTime (their reading of each Retry-After value is passed to the model as ext lines)"],
    assumptions=["a tick of the BatchTimeout/4 ticker is handled at the instant it fires (fake clock; the harness waits for the pass to finish)",
                 "a dispatched sendBatch runs to completion before the next operation (the harness drains the dispatch pool); concurrency between batches is not modelled",
                 "Clock.Sleep for Retry-After is virtual (no time passes)",
                 "the http.NewRequest failure branch of sendBatch is unreachable once url.JoinPath accepted the URL and is not modelled",
                 "the scripted server answers only after the transport has closed the request body (sendBatch reuses its pooled bytes.Reader as soon as Do returns; see report)",
                 "concurrent EnqueueEvent calls are modelled as the linearisation the implementation chose (reported by the harness); "
                 "enqueue_order_independent shows the choice does not matter for what is sent and counted",
                 "every wait of the harness on the transmission is bounded by an idle watchdog (6 s without any metric call, request or "
                 "upstream read): a send or Stop that never finishes is observed as `hang`",
                 "sample rates of 2^63 and above cannot be held by the int64 the wire format uses: the code's conversion wraps them "
                 "(modelled by wireRate, generated, excluded from the samplerate monitor)",
                 "the serialized size of an event is its payload (Payload.MarshalMsg) plus the prefix sendBatch itself writes for "
                 "that time and sample rate (measured through sendBatch; the payload is the tail of the per-event encoding)",
                 "EnqueueEvent is not called after Stop (it would write to a nil map)"],
    manifest=dict(
        text="Lean theorems over all event streams, clock schedules and server behaviours: splitting of any size list terminates, keeps "
             "order, drops exactly the >1 MB / unmarshalable events (each counted as an error) and never builds a body over 5 000 000 bytes; "
             "every event is in exactly one batch of its own (host, key, dataset); batches hold at most MaxBatchSize events; every batch is "
             "dispatched before its first event is 1.25 x BatchTimeout old; at most two attempts per sub-batch; Stop leaves nothing pending; "
             "queued-items ups = downs + pending in every reachable state over every response branch. The addressing claim for every dataset "
             "name is refuted (FullStatement / full_statement_refuted: datasets '..', '.', '' lose their path segment) and proved for all other "
             "names (request_path_own_dataset_partial). Model tied to transmit/direct_transmit.go "
             "by replaying generated schedules on the real DirectTransmission and comparing every request (destination, body length, events, "
             "clock), all counters and the gauge with the model after every operation, plus a monitor of the property on the observations.",
        note="Trusted: Lean kernel; differential harness (sampled); net/http, msgpack and zstd libraries; fake clock. Concurrency between "
             "batches and the pooled-reader reuse race are outside the model.",
        technique="Lean 4 proof (induction over the split loop, invariants over operation histories) + model/implementation correspondence check",
    ),
)
