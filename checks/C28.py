def nontrivial(c):
    return True

SPEC = dict(
    property="C28",
    component="nocrash",
    props_module="Refinery.Props.C28",
    gen_module="Refinery.Gen.Nocrash",
    quick=dict(cases=400, len=20, shards=4),
    thorough=dict(cases=20000, len=20, shards=16),
    nontrivial=nontrivial,
    rule="TBD",
    trusted_base=[],
    manifest=dict(text="TBD", note="TBD", technique="TBD"),
    assumptions=[],
)
