import hashlib, json, os, re


def _obs_after(c, opname):
    """observations of the ops named `opname` in a transcript case"""
    out, cur = [], None
    for l in c["lines"]:
        p = l.split(" ")
        if p[0] == "op":
            cur = p[1]
        elif p[0] == "obs" and cur == opname:
            out.append(" ".join(p[1:]))
    return out


def nontrivial(c):
    """part A: the REAL loader accepted the rules file and the case went on to start a sampler;
    part B: at least one request was answered (any status)"""
    if "part=B" in c["header"]:
        return any(l.startswith("obs ") for l in c["lines"])
    return any(o == "accept" for o in _obs_after(c, "load") + _obs_after(c, "loadfile")) and bool(_obs_after(c, "start"))


def custom(vc, spec, tier, seed, replay):
    """generic pipeline, then count from the transcripts what the real validator accepted/rejected
    (only accepted configurations count for part A) and what the request fuzzing saw."""
    spec2 = {k: v for k, v in spec.items() if k != "custom"}
    rc = vc.generic_check(spec2, "C28", tier, seed, replay)
    try:
        d = os.path.join(vc.CACHE, "run", "C28" + ("" if vc.REPO == "/repo" else
                                                   "-" + hashlib.sha1(vc.REPO.encode()).hexdigest()[:10]))
        verdicts, starts, evals, reqs, kinds = {}, {}, {}, {}, {}
        for f in sorted(os.listdir(d)):
            if not re.fullmatch(r"(s\d+|corpus)\.tr", f):
                continue
            cur, accepted, kind = None, False, None
            for l in open(os.path.join(d, f)):
                p = l.rstrip("\n").split(" ")
                if p[0] == "case":
                    accepted, kind = False, "none"
                elif p[0] == "op":
                    cur = p[1]
                    if cur == "leaf" and len(p) > 2:
                        kind = p[2]
                    elif cur == "rules":
                        kind = "RulesBasedSampler"
                    elif cur == "req" and len(p) > 2:
                        cur = "req:" + p[2]
                elif p[0] == "obs" and cur:
                    o = p[1]
                    if cur in ("load", "loadfile"):
                        verdicts[o] = verdicts.get(o, 0) + 1
                        accepted = o == "accept"
                        if accepted:
                            kinds[kind] = kinds.get(kind, 0) + 1
                    elif cur == "start" and accepted:
                        starts[o] = starts.get(o, 0) + 1
                    elif cur == "eval" and accepted:
                        evals[o if not o.startswith("ok") else "ok"] = evals.get(o if not o.startswith("ok") else "ok", 0) + 1
                    elif cur.startswith("req:"):
                        k = cur[4:] + " " + (o if not o.startswith("caught") else "caught-panic")
                        reqs[k] = reqs.get(k, 0) + 1
        acc = verdicts.get("accept", 0)
        rej = sum(v for k, v in verdicts.items() if k != "accept")
        vc.log("[C28] part A: real loader+validator ACCEPTED %d rules files, refused %d (%s)" % (
            acc, rej, ", ".join("%s=%d" % kv for kv in sorted(verdicts.items()))))
        vc.log("[C28] part A: accepted by sampler type: %s" % ", ".join("%s=%d" % kv for kv in sorted(kinds.items())))
        vc.log("[C28] part A: start outcomes on accepted files: %s" % ", ".join("%s=%d" % kv for kv in sorted(starts.items())))
        vc.log("[C28] part A: eval outcomes on accepted files: %s" % ", ".join("%s=%d" % kv for kv in sorted(evals.items())))
        nreq = sum(reqs.values())
        bad = {k: v for k, v in reqs.items() if k.split(" ")[1].startswith(("panic", "caught", "hang", "fatal"))}
        vc.log("[C28] part B (FUZZING, not a theorem): %d malformed requests, %d panics/hangs" % (nreq, sum(bad.values())))
        p = os.path.join(vc.VERIF, "evidence", "C28.json")
        ev = json.load(open(p))
        ev["coverage"]["part_A_validated_configs"] = {
            "note": "only rules files the REAL loader+validator accepted count for part A",
            "accepted": acc, "refused": rej, "verdicts": verdicts, "accepted_by_sampler_type": kinds,
            "start_outcomes_on_accepted": starts, "eval_outcomes_on_accepted": evals}
        ev["coverage"]["part_B_request_fuzzing"] = {
            "note": "FUZZING in support of the search, not a theorem: no model of the request path; "
                    "monitor = no panic (caught or not) and no request exceeding the per-request timeout",
            "requests": nreq, "by_endpoint_and_answer": dict(sorted(reqs.items())), "panics_or_hangs": bad}
        for s in ev["coverage"].get("samples", []):
            if isinstance(s, dict) and "transcript" in s:
                s["transcript"] = [t if len(t) <= 240 else t[:240] + "…(%d chars)" % len(t) for t in s["transcript"]]
        vc.write_evidence("C28", ev)
    except Exception as e:          # the add-on must never change the verdict
        vc.log("[C28] statistics add-on skipped: %r" % (e,))
    return rc


SPEC = dict(
    property="C28",
    component="nocrash",
    props_module="Refinery.Props.C28",
    gen_module="Refinery.Gen.Nocrash",
    custom=custom,
    quick=dict(cases=800, len=32, shards=4),
    thorough=dict(cases=9600, len=40, shards=16),
    nontrivial=nontrivial,
    rule="PART A (proof + correspondence): a case = one rules file generated type-directed over the REAL rulesMeta.yaml "
         "(every sampler type; every key absent/present; boundary values 0, 1, -1, 2^31, 2^32-1, 2^32, 2^32+1, -2^32, 2^33, "
         "MaxInt64, MinInt64, 2^63, 2^64-1; floats around 0 and 1; durations 0, 1ns, 1us, 1ms-1ns, 1ms, 1s … and negative ones; "
         "field lists empty, with empty names, root./?. prefixes, 200-500 names, non-string members; null / scalar where a "
         "mapping belongs; rules with 0-3 rules, 0-2 conditions, downstream samplers, `Sampler: {}`; a few wrong-typed values and "
         "unknown keys), run through the real loader+validator (newFileConfig; 4% and the whole corpus through config.NewConfig on "
         "real files), then NewCoreFieldsUnmarshaler, SamplerFactory.GetSamplerImplementationForKey and 1-3 GetSampleRate calls "
         "under recover (a logger turns 'Exiting.' + os.Exit into an observable outcome; files with a negative duration are "
         "started in a child process because dynsampler-go panics in a goroutine).  Every verdict and outcome is compared with the "
         "Lean model; non-trivial = the real validator ACCEPTED the file and a sampler start was attempted (refused files only "
         "exercise the validator model).  PART B (FUZZING in support of the search, NOT a theorem): one case in five is a stream of "
         "8-40 malformed requests (truncated / bit-flipped / spliced with 4 GiB msgpack and 2^63 protobuf length prefixes, "
         "2000-22000-deep msgpack/JSON/protobuf nesting, odd JSON and msgpack members; gzip/zstd well-formed, truncated, corrupted, "
         "mis-announced; wrong and odd content types; odd samplerate/event-time headers) on /1/events, /1/batch, /v1/traces, "
         "/v1/logs through the real mux and middleware, and on the gRPC trace/logs Export handlers, executed in a worker process "
         "(address space capped at 3 GiB) under recover and a 6 s watchdog: a recovered or unrecovered panic, a dead worker "
         "(fatal error: out of memory / stack overflow) or a request that does not return is a monitor failure whose signature "
         "names the endpoint and the busy/faulting frame, with the request bytes as replay; non-trivial = answered.  "
         "Distinct by transcript hash.",
    trusted_base=["gopkg.in/yaml.v3 decoding and the config loader as called (newFileConfig / NewConfig)",
                  "config.MockConfig, transmit.MockTransmission, sharder.MockSharder, metrics.NullMetrics, a logger that turns "
                  "'… Exiting.' into a panic (part A) / records panicCatcher's report (part B)",
                  "dynsampler-go v0.6.4: only its Start defaults, the NewTicker goroutine, EMAThroughput's 1 ms refusal and the "
                  "answer before the first tick are modelled; later answers are a parameter of the model",
                  "the classification of recovered panics by their runtime error text"],
    manifest=dict(
        text="Lean model of rules-file validation (generic interpreter of the real rulesMeta.yaml table, read from the compiled code on "
             "every run), YAML decoding, sampler construction (every sampler type, rules with downstream samplers) and the first "
             "sampling decisions, with Go's partial operations (index, integer division, rand.Intn(n<=0), nil-map write, nil "
             "dereference, os.Exit, NewTicker(d<=0) in a goroutine) as explicit outcomes.  Theorems: the full statement "
             "(accepted => no crash) is REFUTED for the code as it is with nine machine-checked witnesses, one per panic site, "
             "each reproduced end to end on the real code (YAML file -> config.NewConfig accepts -> real SamplerFactory/Start/"
             "GetSampleRate panics, exits or kills a child process); valid_config_no_panic_partial holds under the extra "
             "hypotheses (Benign) the validator does not enforce (exact for leaf samplers: leaf_no_crash_iff_benign); "
             "valid_config_no_panic_fixed proves the full statement for the "
             "proposed repairs for every metadata table and every later answer of the third-party samplers (model parameter "
             "`fixed`, oracle `def variant`).  Model tied to the code by replaying generated rules files on the real loader, "
             "validator, factory and samplers and comparing every verdict/outcome/rate.  Separately, as FUZZING and not as a theorem, "
             "a malformed-bytes stream on every HTTP endpoint and the gRPC Export handlers of a real Router: any panic or hang is "
             "reported with the request bytes as replay (three found: unbounded allocations from msgpack length headers).",
        note="PARTIAL by nature: third-party decoders (msgp, jsoniter, protobuf, gzip, zstd, husky) and the HTTP/gRPC stacks are not "
             "modelled; the request half is sampled fuzzing only.  Trusted: Lean kernel; the differential check (sampled); "
             "YAML decoding; the harness' classification of panics.  Peer traffic and the main (non-rules) configuration are out of scope.",
        technique="Lean 4 proof (refutation by witnesses, partial theorem, full theorem for the repaired variant) + "
                  "model/implementation correspondence check + request fuzzing (labelled as such)",
    ),
    assumptions=[
        "int and uint are 64 bits wide (amd64/arm64)",
        "one Samplers entry (__default__) with at most one sampler; a rule's Sampler mapping has at most one entry; "
        "Rules / Conditions / Sampler keys are written as sequences / mappings (other shapes are refused by the real validator "
        "and not generated); integer literals lie in [-2^63, 2^64)",
        "which rule of a rules-based sampler matches a trace is an input of the model (computed by the real matching functions)",
        "answers of the dynsampler-go samplers after their first tick are a parameter: non-negative in the partial theorem, "
        "arbitrary in the theorem for the repaired code; evaluations of samplers whose ticker interval is under 1 s are not compared",
        "only the main configuration `General.ConfigurationVersion: 2` is used; main-config validation is not part of the model",
        "PART B IS FUZZING, NOT A THEOREM: it supports the search for crashing requests; absence of findings there proves nothing",
    ],
)
