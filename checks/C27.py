def nontrivial(c):
    ops = [l.split(" ") for l in c["lines"] if l.startswith("op ")]
    names = [o[1] for o in ops]
    started = any(l.startswith("obs su=ok") or l.startswith("obs su=warn") for l in c["lines"][:8])
    writes = sum(1 for n in names[3:] if n in ("wc", "wr"))
    return started and writes >= 1 and names.count("reload") >= 2

SPEC = dict(
    property="C27",
    component="reload",
    props_module="Refinery.Props.C27",
    quick=dict(cases=160, len=12, shards=8),
    thorough=dict(cases=2400, len=24, shards=16),
    nontrivial=nontrivial,
    rule="cases = random histories on a real fileConfig over temp files (config + rules): file rewrites drawn from "
         "{valid changed value, valid changed bytes only, identical bytes, deprecated setting (warning), validation error, "
         "wrong datatype, syntax error, unknown group, path removed} followed by reload triggers through Config.Reload() "
         "(timer path) or the real ConfigWatcher.SubscriptionListener (pubsub path, incl. unparseable message), listener "
         "registrations, and at most one concurrency stress op (G goroutines x R rounds of Reload with file rewrites); about 3% of "
         "the cases (and two corpus cases) are watcher-driven: the real ConfigWatcher + LocalPubSub started on the file config with "
         "ConfigReloadInterval 200ms of real time, valid change -> poll until applied, rejected contents held over >= 3 failing ticks, "
         "valid change -> poll until applied and notified exactly once; `nested A B` ops: listener 0, while notified of the reload "
         "that applied A, writes B and triggers a second Reload; about a third of the valid config contents set every field the "
         "config metadata marks `reload: true` (33 fields the validator accepts with type-synthesised non-default values, taken "
         "from config.LoadConfigMetadata at run time, two variants) and after every reload all no-argument getters of "
         "config.Config (by reflection) plus three with fixed arguments are compared with a fresh NewConfig of the same files; every "
         "reload also runs a real startup (NewConfig) on the same files for the accept/reject verdict; "
         "non-trivial = startup succeeded, at least one rewrite after it and at least two reload triggers; distinct by transcript hash",
    trusted_base=["crypto/md5 treated as injective on the generated contents (harness maps GetHashes back to content tokens)",
                  "os.Rename gives readers either the old or the new file",
                  "logger.MockLogger, noop tracer"],
    manifest=dict(
        text="Lean: sequential Reload model (startup acceptance, hash comparison, callbacks) with reload_iff / reject_keeps_old / "
             "notify_once over all histories, and a small-step semantics of overlapping triggers (read+build; compare; "
             "lock-assign-unlock; callbacks) with theorems over every schedule of any number of triggers and file writes. "
             "For the code as it is (compare-and-assign under f.mux since 8a38f8f, files still read before the lock) the full "
             "statements are refuted by proved witnesses (warnings-only config never reloads; a stale snapshot is assigned after "
             "a newer one: content applied/notified twice, stale config left running) and the parts that hold are proved "
             "(_partial, incl. no two successive assignments of the same file version on any schedule); the "
             "same statements are proved for the repaired shape (warnings tolerated, Reload serialized). Sequential model tied to "
             "config/file_config.go by replaying generated histories on the real fileConfig; monitor on the implementation's own "
             "observations (real startup verdict vs. reload outcome, callback counts, getter values); concurrency stress judged "
             "by the monitor only.",
        note="Trusted: Lean kernel; the differential check is sampled; the concurrency stress is a search aid, not a proof; "
             "sync.RWMutex / sync.Mutex provide mutual exclusion; MD5 injective on the contents used.",
        technique="Lean 4 proof (invariants by induction over histories and schedules; refutations by kernel-evaluated witnesses) "
                  "+ model/implementation correspondence check",
    ),
    assumptions=["getter comparison: no getter is skipped; GetConfigMetadata is compared with the file locations (ID) blanked because the fresh "
                 "load may come from another case's directory; getters of fields documented `reload: false` also show the new file's "
                 "values after a reload in the code as it is (mainConfig is swapped wholesale), so they are compared like the others",
                 "reloadable fields not varied by the generator (no generic valid value): url, memorysize, percentage, formatted or "
                 "choice-less strings, non-string arrays, fields with requiredWith-style validations, deprecated fields/groups",
"the two files are read as one snapshot (a write between reading the config and the rules file is not modelled)",
                 "lock; compare; assign; unlock of Reload is one atomic step (every other access to these fields holds f.mux)",
                 "listeners are registered before the triggers that notify them overlap (RegisterReloadCallback is not raced with Reload)",
                 "a content is identified with its MD5 hash"],
)
