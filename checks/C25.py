import glob, hashlib, json, os, re


def _kv(tokens, key):
    for t in tokens:
        if t.startswith(key + "="):
            return t[len(key) + 1:]
    return None


def _dec(s):
    if s in (None, "%"):
        return ""
    raw = re.sub(rb"%([0-9A-Fa-f]{2})", lambda m: bytes([int(m.group(1), 16)]), s.encode())
    return raw.decode("utf-8", "surrogateescape")


def _tok_class(cfg, hdr, tok, tok2, old=""):
    if hdr == "none":
        return "none"
    if old != "" and old != cfg and tok == old:
        return "old-token"
    if cfg == "":
        return "empty" if tok == "" else "any"
    if tok == cfg:
        return "exact"
    if hdr == "two" and tok2 == cfg:
        return "second-value"
    if tok == "":
        return "empty"
    if tok.strip() == "":
        return "whitespace-only"
    if tok == cfg.strip():
        return "trimmed"
    if tok.strip() == cfg or tok.strip() == cfg.strip():
        return "exact-plus-whitespace"
    cb, tb = cfg.encode("utf-8", "surrogateescape"), tok.encode("utf-8", "surrogateescape")
    if cb.startswith(tb):           # bytes: a prefix may end in the middle of a multi-byte character
        return "prefix"
    if tb.startswith(cb):
        return "extension"
    if tok.lower() == cfg.lower():
        return "case-variant"
    return "other"


METHODS = {"GET", "HEAD", "POST", "PUT", "DELETE", "PATCH", "OPTIONS"}


def _need_reduced(cfg, old=""):
    """token classes sent with the methods a route does not accept"""
    relayable = lambda t: "\n" not in t and "\r" not in t     # a line break is not a valid HTTP field value
    extra = {"old-token"} if old != "" and old != cfg and relayable(old) else set()
    if cfg == "":
        return {"none", "empty", "any"} | extra
    return ({"none", "empty", "exact", "other"} if relayable(cfg) else {"none", "empty", "other"}) | extra


def _complete(per_target, cfg, old, want_formats):
    """every method x every concrete path, with the full token grid on accepted methods, the reduced one otherwise"""
    if not per_target:
        return False
    seen_methods = {k[0] for k in per_target}
    paths = {k[1] for k in per_target}
    if not METHODS <= seen_methods or (want_formats and len(paths) < 5):
        return False
    for m in METHODS:
        for p in paths:
            ks = [k for k in per_target if k[0] == m and k[1] == p]
            if not ks:
                return False
            for k in ks:
                need = _need(cfg, old) if k[2] and (m == "GET") else _need_reduced(cfg, old)
                if not need <= per_target[k]:
                    return False
    return True


RELOAD_CLASSES = {"other-token", "cleared", "whitespace-only"}
CFG_CLASSES = {"empty", "ordinary", "whitespace-only", "outer-whitespace", "inner-whitespace", "long", "non-ascii"}


def _need(cfg, old=""):
    """request-token classes that exist for this configured token (old: the token configured before the reload)"""
    extra = {"old-token"} if old != "" and old != cfg else set()
    if cfg == "":
        return {"none", "empty", "any"} | extra
    return _need_set(cfg) | extra


def _need_set(cfg):
    need = {"none", "empty", "exact", "second-value", "extension", "other"}
    if cfg.strip() != "":
        need |= {"whitespace-only", "exact-plus-whitespace"}
    if cfg.strip() != cfg and cfg.strip() != "":
        need.add("trimmed")
    if len(cfg) >= 2 and cfg[:-1].strip() not in ("", cfg.strip()):   # else the longest prefix is a whitespace / trimmed variant
        need.add("prefix")
    if any(ch.isascii() and ch.isalpha() for ch in cfg):
        need.add("case-variant")
    return need


def _case_summary(c):
    """-> (phases, n data, n error, n data with secrets); a phase = (configured token in force, token before
    the last reload, {(via, tmpl): {path: set(token classes)}}); a `reload` op starts a new phase"""
    cfg = _dec(_kv(c["header"].split(" "), "cfgtok"))
    phases = [(cfg, "", {})]
    cur = None
    nd = ne = nds = 0
    sec = 0
    npx = [0]
    for l in c["lines"]:
        t = l.split(" ")
        if t[0] == "op" and t[1] == "reload":
            new = _dec(_kv(t, "tok"))
            phases.append((new, phases[-1][0], {}))
            cur = None
        elif t[0] == "op":
            cfg, old, _ = phases[-1]
            meth = _kv(t, "m") or "GET"
            cur = ((_kv(t, "via") or "router", _dec(_kv(t, "tmpl"))), (meth, _dec(_kv(t, "path")), (_kv(t, "dm") or "1") == "1"),
                   _tok_class(cfg, _kv(t, "hdr"), _dec(_kv(t, "tok")), _dec(_kv(t, "tok2")), old))
            sec = 0
        elif t[0] == "ext" and len(t) >= 5 and t[1] == "secrets":
            sec = int(t[4])
        elif t[0] == "obs" and cur:
            phases[-1][2].setdefault(cur[0], {}).setdefault(cur[1], set()).add(cur[2])
            if _kv(t, "class") == "data":
                nd += 1
                nds += 1 if sec > 0 else 0
            elif _kv(t, "class") == "error":
                ne += 1
            elif _kv(t, "class") == "proxied":
                npx[0] += 1
    return phases, nd, ne, nds


def _is_interleave(c):
    return _kv(c["header"].split(" "), "cls") == "interleave"


def nontrivial(c):
    """refusals for several request tokens; with a configured token also data responses that really
    carry the secrets (so that 'the refusal contains none of them' says something); an interleaving case:
    requests with a reload landing inside them, some refused and some answered with data"""
    if _is_interleave(c):
        obs = [l for l in c["lines"] if l.startswith("obs ")]
        return sum("class=error" in l for l in obs) >= 6 and sum("class=data" in l for l in obs) >= 1
    phases, nd, ne, nds = _case_summary(c)
    if all(p[0] == "" for p in phases):
        return ne >= 6 and nd == 0
    return ne >= 6 and nds >= 1


def custom(vc, spec, tier, seed, replay):
    """generic pipeline, then measure on this run's transcripts that every walked /query route was
    exercised with every format and every token class under both an empty and a non-empty configured token."""
    sp = {k: v for k, v in spec.items() if k != "custom"}
    rc = vc.generic_check(sp, spec["property"], tier, seed, replay)
    evp = os.path.join(vc.VERIF, "evidence", spec["property"] + ".json")
    try:
        ev = json.load(open(evp))
    except Exception:
        return rc
    cov = ev["coverage"]
    routes = re.findall(r'"([^"]+)"', cov.get("facts", {}).get("queryRoutes", ""))
    complete, reload_classes = {}, {}
    inter = {"cases": 0, "requests_with_reload_inside": 0, "by_split_and_new_token": {}}
    incomplete = 0
    paths = set()
    MW = ("mw", "middleware-instance")
    wd = spec["property"] + ("" if vc.REPO == "/repo" else "-" + hashlib.sha1(vc.REPO.encode()).hexdigest()[:10])
    for trf in glob.glob(os.path.join(vc.CACHE, "run", wd, "s*.tr")):   # this run's transcripts (same naming as vcheck's workdir)
        for c in vc.parse_cases(open(trf).read()):
            if _is_interleave(c):
                ops = [l for l in c["lines"] if l.startswith("op qr ")]
                inter["cases"] += 1
                inter["requests_with_reload_inside"] += len(ops)
                for l in ops:
                    t = l.split(" ")
                    inter["by_split_and_new_token"]["k=%s:to=%s" % (_kv(t, "k"), "cleared" if _kv(t, "to") == "%" else
                                                    ("whitespace-only" if _dec(_kv(t, "to")).strip() == "" else "other-token"))] = 1
                continue
            phases, nd, ne, nds = _case_summary(c)
            hdr = c["header"].split(" ")
            cls, cls2 = _kv(hdr, "cls") or "?", _kv(hdr, "cls2") or "?"
            ok = bool(routes) and len(phases) == 2
            for cfg, old, per in phases:
                ok = ok and all(_complete(per.get(("router", r)), cfg, old, "{format}" in r) for r in routes)
                ok = ok and _complete(per.get(MW), cfg, old, False)
            if ok:
                complete[cls] = complete.get(cls, 0) + 1
                reload_classes[cls2] = reload_classes.get(cls2, 0) + 1
                for cfg, old, per in phases:
                    for k in per:
                        if k[0] == "router":
                            paths.update(x[1] for x in per[k])
            else:
                incomplete += 1
    cov["exhaustive"] = bool(routes and CFG_CLASSES <= set(complete) and RELOAD_CLASSES <= set(reload_classes) and incomplete == 0
                             and not replay and not cov.get("broken"))
    cov["grid"] = {"routes_walked": routes, "concrete_paths": sorted(paths),
                   "cases_complete_by_configured_token_class": complete,
                   "cases_complete_by_reload_class": reload_classes,
                   "interleaving_cases_outside_the_grid": dict(inter, by_split_and_new_token=sorted(inter["by_split_and_new_token"]),
                       note="every 7th case: requests during which a reload lands right after the k-th read (k = 1, 2) of the "
                            "configured token inside the request, new token in {cleared, other, whitespace-only}, request token in "
                            "{absent, empty, blank, old, new, other, old as second value}, on one path per /query route and on the kept "
                            "middleware instance; not part of the exhaustive grid"),
                   "cases_incomplete": incomplete,
                   "space": "every leaf route of the real mux whose template starts with /query x every instantiation "
                            "({format}: json, yaml, toml, JSON, xml; {traceID}: a trace of each shard) x request token "
                            "{no header, empty, whitespace-only, exact, exact plus leading/trailing whitespace, trimmed variant, "
                            "proper prefix, extension, case variant, other, exact as second value} x configured token "
                            "{empty, ordinary, whitespace-only, leading/trailing whitespace, inner whitespace, very long, non-ASCII} "
                            "x method {GET with the full token grid; HEAD, POST, PUT, DELETE, PATCH, OPTIONS with {absent, empty, exact, different, "
                            "rotated-out}} x phase {before, after a reload of the token to another token / cleared / whitespace-only, with the rotated-out token "
                            "among the request tokens} x target {real router, one kept instance of the middleware built before the reload} "
                            "(request classes that do not exist for a configured token, e.g. a case variant of blanks, are not required)"}
    vc.write_evidence(spec["property"], ev)
    return rc


SPEC = dict(
    property="C25",
    component="queryauth",
    props_module="Refinery.Props.C25",
    gen_module="Refinery.Gen.QueryAuth",
    custom=custom,
    quick=dict(cases=56, len=1, shards=2),
    thorough=dict(cases=16 * 70, len=1, shards=16),
    nontrivial=nontrivial,
    rule="a case = one configured token, classes enumerated round-robin {empty, ordinary, whitespace-only, leading/trailing "
         "whitespace, inner whitespace, very long (600-1500 chars), non-ASCII}, concrete token drawn from the seed, and the "
         "complete request grid: every /query leaf route found by walking the real mux x every format / shard "
         "instantiation x every request-token class (no header, empty, proper prefixes, proper suffix, extensions, case variants, "
         "whitespace-only tokens, exact plus leading/trailing whitespace, trimmed and whitespace-stripped variants, different of equal length, exact, exact as second header value, exact as first of two); non-trivial = "
         "at least 6 refusals and, when a token is configured, at least one data response that really contains the secrets "
         "(shard address, rule marker, config marker); each case then reloads the token (to another token / cleared / whitespace-only, round-robin) while the router "
         "keeps running and repeats the grid relative to the new token plus the rotated-out token; every token class is also sent "
         "through one instance of queryTokenChecker that was built before the reload; every 7th case is an interleaving case "
         "(outside the grid): requests during which a reload lands right after the k-th read of the token; distinct by transcript hash",
    trusted_base=["gorilla/mux routing and Walk, net/http/httptest (requests are served in-process by the handler LnS installed)",
                  "repo mocks: MockConfig (QueryAuthToken, sampler rules, config metadata), MockSharder"],
    manifest=dict(
        text="Lean theorems over all strings: the token check passes a request to the data handler iff a non-empty token is "
             "configured and the first header value equals it byte for byte (query_auth_spec; prefixes, extensions, case variants, "
             "empty tokens, second header values and any token under an empty configuration are refused), and every refusal is a "
             "function of the request's token and the bit 'a token is configured' only (error_reveals_nothing, "
             "refusal_noninterference). Tied to the code by walking the real router's mux for every /query route and comparing "
             "status and body of every path x format x token class x configured-token class with the model, plus a monitor that "
             "scans refusals for the configured token, shard addresses and rule/config markers and probes non-interference.",
        note="Trusted: Lean kernel; the differential check (request grid complete per case, configured tokens sampled); "
             "gorilla/mux; in-process serving through the real handler chain.",
        technique="Lean 4 proof + exhaustive route-walk correspondence check",
    ),
    assumptions=["header values are valid UTF-8 (Lean strings); Go compares bytes",
                 "requests reach the handler as sent (no proxy in front that trims or merges header values)",
                 "endpoints follow a reload because mux rebuilds the middleware chain per matched request (gorilla/mux v1.8.1 "
                 "Router.Match) — observed through the real router, not assumed; the kept-instance comparison pins the closure's "
                 "own per-request lookup as a correspondence obligation (model comparison only, no monitor verdict)",
                 "requests with a method the /query sub-router does not accept fall through to the proxy route (observed: relayed "
                 "to a stub upstream whose answer carries a marker header and is not query data); the proxy's own behaviour is C37's"],
)
