import json, os, time


def nontrivial(c):
    """a v1 file with at least two settings that was converted, loaded by the real v2 loader and read back"""
    ops = [l.split(" ")[1] for l in c["lines"] if l.startswith("op ")]
    sets = sum(1 for o in ops if o in ("set", "rset", "rrule", "rcond", "rdown"))
    gets = sum(1 for o in ops if o in ("get", "rget", "rgetrule", "rgetcond", "rgetdown"))
    loaded = any(l == "obs ok" for l in c["lines"])
    return sets >= 2 and "convert" in ops and loaded and gets >= 2


def custom(vc, spec, tier, seed, replay):
    """tools/convert is `package main`: the harness is injected into that package and the build target
    is ./tools/convert itself (tag `verif`); the binary is the harness when VERIF_CONVERT_HARNESS=1 and
    the unmodified converter otherwise (each conversion of a case runs it as a child process).
    Everything else is the generic pipeline."""
    os.environ["VERIF_CONVERT_HARNESS"] = "1"

    def go_build(comp, race=False):
        # own overlay file: only the kit and this component's injected files (the shared
        # .cache/overlay.json is rewritten by concurrently running checks of other repos/worktrees)
        h = os.path.join(vc.VERIF, "harness")
        repl = {}
        for f in sorted(os.listdir(os.path.join(h, "kit"))):
            if f.endswith(".go"):
                repl[os.path.join(vc.REPO, "internal/verifkit", f)] = os.path.join(h, "kit", f)
        for rel in ("config/zz_verif_convert.go", "tools/convert/zz_verif_convert.go",
                    "tools/convert/zz_verif_convert_gen.go"):
            repl[os.path.join(vc.REPO, rel)] = os.path.join(h, "inject", rel)
        os.makedirs(os.path.join(vc.CACHE, "bin"), exist_ok=True)
        ov = os.path.join(vc.CACHE, "overlay-C38-%d.json" % os.getpid())
        with open(ov, "w") as fh:
            json.dump({"Replace": repl}, fh, indent=1)
        out = os.path.join(vc.CACHE, "bin", "vh_convert")
        t = time.time()
        r = vc.sh(["go", "build", "-tags", "verif", "-overlay", ov, "-o", out, "./tools/convert"],
                  cwd=vc.REPO, env=vc.GOENV, timeout=1500)
        vc.log("[go build vh_convert (./tools/convert + injected harness)] rc=%d %.1fs" % (r.returncode, time.time() - t))
        try:
            os.remove(ov)
        except OSError:
            pass
        return (out if r.returncode == 0 else None), r.stdout

    vc.go_build = go_build
    spec2 = {k: v for k, v in spec.items() if k != "custom"}
    return vc.generic_check(spec2, "C38", tier, seed, replay)


SPEC = dict(
    property="C38",
    component="convert",
    props_module="Refinery.Props.C38",
    gen_module="Refinery.Gen.Convert",
    custom=custom,
    quick=dict(cases=40, len=40, shards=8, timeout=600),
    thorough=dict(cases=1600, len=60, shards=16, timeout=2400),
    nontrivial=nontrivial,
    rule="cases = generated valid v1 files: config files (TOML or YAML) over the old keys of the conversion table "
         "regenerated from templates/configV2.tmpl (values drawn per field type and filtered through the real v2 "
         "validator; ~45% of the files also contain awkward-but-valid values: YAML-sensitive strings, explicit zeroes, "
         "`*` API keys, keys of since-deprecated fields, an AdditionalAttributes table) and rules files (all five v1 "
         "samplers, rules with conditions and downstream samplers, mixed key case); each is converted by the real "
         "converter binary (child process running main()), the output is loaded by the real v2 loader+validator "
         "in-process and read back field by field; non-trivial = at least 2 settings, converted, accepted by the "
         "loader, at least 2 fields read back; distinct by transcript hash",
    trusted_base=["yaml.v3 / go-toml (writing the generated v1 file, reading scalars: graph supplied as ext lines)",
                  "time.ParseDuration and Duration.String are inverse (ext lines)",
                  "text/template (not modelled: the table is re-extracted from the embedded template by regular expressions)",
                  "float64 arithmetic of MemorySize.MarshalText is exact below 2^53"],
    manifest=dict(
        text="Lean theorems over the converter's value functions (every template helper, _fetch, yamlf quoting rule, "
             "MemorySize printing, removeDeprecated, the v2 loader's type check/decode/defaults, the rules field renames): "
             "for every v1 value of the field's type the loaded v2 value equals the v1 value under three explicit hypotheses "
             "(unquoted text is read back as a string, an explicit zero only where zero is the default, no key of a "
             "deprecated field in the file); the unrestricted statement is refuted with concrete witnesses; table obligations "
             "(every template action is a known helper, template defaults = loader defaults, memory units read back as "
             "printed) are decided over tables regenerated from templates/configV2.tmpl, configMeta.yaml and the sampler "
             "structs on every run. Tied to the code by converting generated v1 files with the real converter binary and "
             "loading the result with the real v2 loader, comparing every read-back field with the model and with the v1 input. "
             "Five proposed repairs (yamlf quoting, list items through yamlf, removeDeprecated only for v2 input, renderMap on a "
             "decoded table, nil condition Value omitted) are modelled behind per-defect flags (Model.Convert.Fixes, oracle "
             "fixesDefault / VERIF_C38_FIXED); the full statements are proved for the repaired variants "
             "(full_statement_fixed, file_statement_fixed, rules_statement_fixed).",
        note="Partial: the template engine and YAML rendering are not modelled; 'passes v2 validation' is established by running "
             "the real validator on generated cases (a test, not a theorem). Known divergences are listed as findings.",
        technique="Lean 4 proof (case analysis over helpers and value types; decide over regenerated tables) + differential "
                  "correspondence check through the real converter and the real v2 loader",
    ),
    assumptions=["v1 values are type-correct for their field and satisfy the v2 validator's range/format rules (generator filters "
                 "candidates through the real validator); negative numbers, JSON input files and helm files are not covered",
                 "a v1 key appears once (no two spellings differing only in case, not both SampleCache and SampleCacheConfig tables)",
                 "int64/float64 overflow (durations > 292 years, sizes > 2^53 bytes) is ignored",
                 "rules: dataset names do not collide (case-insensitively) with field names of the default sampler"],
)
