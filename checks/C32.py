def nontrivial(c):
    ops = [l.split(" ")[1] for l in c["lines"] if l.startswith("op ")]
    return "set" in ops and "adv" in ops and ("probe" in ops or "get" in ops)

SPEC = dict(
    property="C32",
    component="ttl",
    props_module="Refinery.Props.C32",
    quick=dict(cases=600, len=60, shards=4),
    thorough=dict(cases=64000, len=80, shards=16),
    nontrivial=nontrivial,
    rule="cases = random histories of set/del/get/keys/values/length/probe/adv on a real SetWithTTL or MapWithTTL "
         "with a fake clock; advances land exactly on (or 1 ns around) an expiry instant in most cases; "
         "non-trivial = contains an add, a clock advance and a later lookup/probe; distinct by transcript hash",
    trusted_base=["clockwork.FakeClock", "Go map semantics (modelled as an association list)"],
    manifest=dict(
        text="Lean theorems over all operation histories (adds, removals, queries with clean-up, clock advances of any size): "
             "lookup = history-indexed spec (present in [add, add+TTL], absent after), listing/count/values agree with lookup in every "
             "reachable state; model tied to generics/setttl.go and mapttl.go by replaying generated histories on the real containers "
             "with a fake clock and comparing every answer with the model, plus a monitor on the implementation's own answers.",
        note="Trusted: Lean kernel; the Go harness/oracle differential check (sampled, not exhaustive); clockwork fake clock; each method atomic under its mutex.",
        technique="Lean 4 proof (simulation invariant by induction over histories) + model/implementation correspondence check",
    ),
    assumptions=["each container method is atomic (it holds the container's mutex); concurrency inside a method is not modelled",
                 "keys are strings ordered like the naturals they encode (zero-padded)"],
)
