def nontrivial(c):
    """a throughput sampler with UseClusterSize exists while the peer count changes, or is created after a change"""
    has_uc = any(("!1!" in tok) for tok in c["header"].split(" ") if tok[:1] == "c" and "=" in tok)
    ops = [l.split(" ")[1] for l in c["lines"] if l.startswith("op ")]
    if not has_uc or "get" not in ops:
        return False
    first_get = ops.index("get")
    chg = ("peers", "peercb", "peercb2")
    return any(o in chg for o in ops[first_get:]) or (any(o in chg for o in ops[:first_get]))


SPEC = dict(
    property="C13",
    component="samplerreg",
    props_module="Refinery.Props.C13",
    gen_module="Refinery.Gen.Samplerreg",
    quick=dict(cases=1000, len=40, shards=4),
    thorough=dict(cases=48000, len=60, shards=16),
    nontrivial=nontrivial,
    rule="same generated cases as C12 (real SamplerFactory, 1-4 simulated workers, histories of get/peers/peersfail/setcfg/"
         "clear/wreload/cget/reload plus membership changes split into peerset (source changes) and peercb (callback runs) with "
         "sampler creations in between, and peercb2 = two overlapping callbacks around a change (the first parked inside "
         "GetPeers after its snapshot, the second started meanwhile); goals 1..1000, 0 and negative; peer counts 0,1,2,3,4,7,10,100,1000,2000 and failing queries); "
         "non-trivial = some configuration has a UseClusterSize throughput sampler, a sampler is built and the peer count "
         "changes before or after; distinct by transcript hash",
    trusted_base=["GoalThroughputPerSec read directly from the dynsampler-go structs (no concurrent writer in the harness)",
                  "a fake peer.Peers whose callbacks fire on every change, as the real implementations' do",
                  "the harness' simulated worker cache"],
    manifest=dict(
        text="Lean theorems over all histories of peer-count changes (including failing and empty queries), lazy creations "
             "on any worker, config swaps and reloads: goal_invariant_registry (every registered throughput instance whose "
             "key is tracked has goal max(cfg/peers in force,1), untracked ones their creation goal), goal_invariant (per definition, "
             "when keys determine type and goal), goal_invariant_after_callback (every live UseClusterSize sampler, whatever was "
             "created between a membership change and its callback), goal_invariant_overlapping_callbacks (commit order = read "
             "order), peerCount_after_callback, peerCount_spec, no_cluster_size_fixed (full statement REFUTED by a "
             "machine-checked witness: a definition without UseClusterSize shares its instance with one that has it; proved "
             "under the no-collision hypothesis). Tied to sample/sample.go by differential replay on the real SamplerFactory "
             "observing GoalThroughputPerSec of every registered dynsampler after every step.",
        note="Trusted: Lean kernel; the sampled differential check; Go integer division = Int.tdiv.",
        technique="Lean 4 proof (state invariant by induction over histories) + model/implementation correspondence check",
    ),
    assumptions=["each SamplerFactory method is atomic (it holds the factory mutex)",
                 "the peers callback eventually fires after a membership change; between the change and the callback nothing is required "
                 "of the goals (the monitor checks again once the callback has run)",
                 "a configured goal of 0 means the dynsampler library default (100) for samplers without UseClusterSize"],
)
