def nontrivial(c):
    # a request that reached the upstream and came back: at least one header with repeated lines or a
    # query string or a non-empty body somewhere in the case
    ops = [l for l in c["lines"] if l.startswith("op req ")]
    obs = [l for l in c["lines"] if l.startswith("obs n=1 ")]
    rich = any(("|" in l) or ("%3F" in l.split(" t=")[1].split(" ")[0]) or (" b=lit:% " not in l) for l in ops)
    return bool(ops) and bool(obs) and rich

SPEC = dict(
    property="C37",
    component="proxy",
    props_module="Refinery.Props.C37",
    gen_module="Refinery.Gen.Proxy",
    quick=dict(cases=240, len=4, shards=4),
    thorough=dict(cases=6400, len=5, shards=16),
    nontrivial=nontrivial,
    rule="case = 2..len+1 HTTP exchanges through the real mux+proxy handler between a raw TCP client and a scripted "
         "httptest upstream (12 methods; RFC 3986 paths with raw and percent-encoded segments; query strings incl. a bare '?'; "
         "0-7 request headers with 1-3 lines each, X-Forwarded-For on 0-3 lines; bodies 0 B-6 MiB incl. 4,999,999/5,000,000/5,000,001 B, Content-Length or chunked, Content-Encoding absent/gzip/zstd (valid and mislabelled)/deflate/identity; "
         "upstream status 200-999 incl. 3xx with/without Location, 0-6 response headers with repeated lines, Set-Cookie on 1-3 lines); "
         "non-trivial = at least one exchange reached the upstream exactly once and the case has a repeated header line, "
         "a query string or a request body; distinct by transcript hash",
    trusted_base=["net/http client and server (framing, Host, hop-by-hop handling)", "net/url path unescaping (supplied as ext lines)",
                  "gorilla/mux route matching", "httptest servers; http.ReadResponse on the client side"],
    manifest=dict(
        text="Lean theorems over all requests/responses: the upstream request built by the handler has the same method, URL "
             "(configured address + path + query, splitting back to the same path and query), body, and for every header name the same "
             "RFC 7230 field value (lines joined by ','), with no other header than X-Forwarded-For added, and X-Forwarded-For = every "
             "line the client sent + the remote address; the client response has the status, body and, line for line, every header "
             "(Set-Cookie included) of the response the HTTP client returned, plus only the middleware's two preset "
             "headers when the upstream did not send them. Two places where the code does not keep the property's promise are stated "
             "as propositions and refuted with witnesses (upstream redirects followed by the proxy's HTTP client, "
             "unclean paths answered 301 by the mux). Model tied to route/proxy.go + LnS by sending generated requests over TCP through "
             "the real mux/middleware/handler to a scripted upstream and comparing what the upstream received and what the client got with "
             "the model, plus a monitor of the property on those observations alone.",
        note="Trusted: Lean kernel; net/http, net/url, gorilla/mux (almost all of the behaviour is theirs; Lean contributes the header-copy, "
             "X-Forwarded-For, URL concatenation, redirect-following and path-cleanliness logic); the sampled differential check.",
        technique="Lean 4 proof (fold invariant over header maps, case analysis) + model/implementation correspondence check over real TCP",
    ),
    assumptions=[
        "request targets are RFC 3986 origin-form (for these net/url's EscapedPath/RequestURI reproduce the bytes verbatim); CONNECT, OPTIONS * and absolute-form targets are not generated",
        "paths Refinery serves itself (/alive /ready /panic /version, GET /query/*, POST /1/events|batch/{ds}, POST /v1/traces|logs) are excluded",
        "hop-by-hop request headers (Connection, Upgrade, TE, Expect, Trailer, Proxy-*) and Content-Encoding on responses are not generated",
        "canonicalised as net/http's own per-hop behaviour: Host, Content-Length, Transfer-Encoding, Date, Connection, the transport's default Accept-Encoding: gzip and User-Agent when the client sent none, header-name case",
        "the setResponseHeaders middleware's presets (Content-Type: application/json, Access-Control-Allow-Origin: *) are part of the model, not counted as a change; they show through only when the upstream sends no such header",
        "an http.Header map has unique (canonical) keys: theorems assume NoDupKeys",
    ],
)
