def nontrivial(c):
    ops = [l.split(" ")[1] for l in c["lines"] if l.startswith("op ")]
    return ("rk" in ops and "rd" in ops and ("drain" in ops or "maint" in ops)
            and ("cs" in ops or "ct" in ops))

SPEC = dict(
    property="C31",
    component="sentcache",
    props_module="Refinery.Props.C31",
    gen_module="Refinery.Gen.Sentcache",
    quick=dict(cases=1200, len=120, shards=4),
    thorough=dict(cases=32000, len=150, shards=16),
    nontrivial=nontrivial,
    rule="x",
    trusted_base=[],
    manifest=dict(text="x", note="x", technique="x"),
    assumptions=[],
)
