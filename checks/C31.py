def nontrivial(c):
    ops = [l.split(" ")[1] for l in c["lines"] if l.startswith("op ")]
    obs = [l for l in c["lines"] if l.startswith("obs ")]
    return ("rk" in ops and "rd" in ops and ("drain" in ops or "maint" in ops)
            and any(o.startswith("obs kept") for o in obs) and any(o == "obs dropped" for o in obs))

SPEC = dict(
    property="C31",
    component="sentcache",
    props_module="Refinery.Props.C31",
    gen_module="Refinery.Gen.Sentcache",
    quick=dict(cases=480, len=120, shards=4),
    thorough=dict(cases=32000, len=150, shards=16),
    nontrivial=nontrivial,
    rule="cases = random histories of kept records (id, rate, reason, counters), drop records, CheckSpan/CheckTrace, "
         "explicit add-queue drains, monitor ticks (Maintain + recent-set length), resizes (kept, dropped, worker count) and "
         "fake-clock advances (mostly landing on / 1 ns around a recent-drop expiry) on a real cuckooSentCache with kept "
         "capacity 1-8 (thorough: up to 64), filters of 4-64 slots, an id universe a few ids larger than the kept capacity, "
         "trace-id strings of 16/32/33/36/48/64/100 bytes in families of 2-4 ids sharing an 8/16/32-byte prefix (lookups and records "
         "biased towards siblings), 8 % of cases flooding the 1000-deep add queue; every case ends with a drain and a lookup of every id. "
         "non-trivial = has a kept record, a drop record, a drain or maintenance, and got both a 'kept' and a 'dropped' answer; "
         "distinct by transcript hash",
    trusted_base=[
        "hashicorp/golang-lru v2 (modelled as the textbook LRU; agreement checked on every generated case)",
        "panmari/cuckoofilter (modelled as an exact set + insert count; its false positives, failed inserts and kicked-out "
        "fingerprints enter the model as adversarial inputs computed from the real filters' Lookup/Count after each drain; "
        "assumed: an insert cannot fail while the filter holds fewer than 4 fingerprints, one failed insert loses at most one id)",
        "dgryski/go-wyhash (reason hash fed to the model per record)",
        "reference for false positives: single-element library filters keyed on the full id (one per dropped id and capacity), "
        "asked by the harness; the filter truth (chk/cur/fut) is read by the harness with full ids on the cache's filter objects, "
        "never through the cache's own Check",
        "clockwork.FakeClock on the recent-drop set; generics.SetWithTTL as modelled for C32",
        "harness accessors zz_verif_sentcache.go (parks the 100 us add-queue goroutine; SizeCheckInterval = 1000 h)",
    ],
    manifest=dict(
        text="Lean theorems over all histories of records, lookups, drains, maintenance cycles (with adversarial filter "
             "behaviour), resizes and clock advances: the kept list refines the recency specification (first `cap` distinct ids "
             "of the touch sequence, most recent first; prefix of it under resizes), such a trace is answered kept with the "
             "recorded rate and interned reason, a resize keeps the newest; an id in the dropped filter or the recent-drop set is "
             "answered dropped whatever the kept list says, stays so until a rotation, rotation needs load > 99 %, the recent-drop "
             "set covers both lookups for 3 s after the record (full statement proved since fix 10253ac made CheckTrace consult it; the "
             "old witness rd x; ct x is kept in corpus/C31 as a regression). Model tied to collect/cache/*.go by replaying "
             "generated histories on the real cuckooSentCache and comparing every answer and every filter/queue statistic, plus a "
             "monitor of the property on the implementation's own answers.",
        note="Trusted: Lean kernel; the differential check (sampled); the third-party LRU, cuckoo filter and wyhash as described; "
             "each cache method runs to completion (no interleaving inside Record/CheckSpan/drain/Maintain/Resize: C35 is about that).",
        technique="Lean 4 proof (refinement + invariants by induction over histories, full statement proved after the repair) "
                  "+ model/implementation correspondence check",
    ),
    assumptions=[
        "operations of one cache do not interleave (the worker goroutine owns the cache; drain and Maintain are the background steps, "
        "made explicit operations here)",
        "sample rates below 2^32 (the uint32 truncation of the kept record is property C04's finding); fewer than 2^32 distinct reasons",
        "no two kept reasons collide under the 64-bit wyhash (hypothesis HashInj of kept_answered / reason_roundtrip)",
        "DroppedSize >= 1 (DroppedSize = 0 with WorkerCount = 0 wraps to 2^64-1 in GetDroppedSizePerWorker; not generated)",
        "'filled to capacity' is read as: the current filter's load exceeded 99 % of its slots at some maintenance cycle after the record",
    ],
)
