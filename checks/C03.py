def nontrivial(c):
    """a case in which at least one trace was buffered, the clock moved, and a tick decided at least one trace"""
    has_span = has_adv = decided = False
    for l in c["lines"]:
        if l.startswith("op span "):
            has_span = True
        elif l.startswith("op adv ") and not l.endswith(" 0"):
            has_adv = True
        elif l.startswith("obs at=") and " sent=-" not in l:  # tick or looptick
            decided = True
    return has_span and has_adv and decided

SPEC = dict(
    property="C03",
    component="deadline",
    props_module="Refinery.Props.C03",
    gen_module="Refinery.Gen.Deadline",
    quick=dict(cases=600, len=60, shards=4),
    thorough=dict(cases=16000, len=90, shards=16),
    nontrivial=nontrivial,
    rule="cases = random schedules of descendant arrivals (root/child; non-root ones 65% plain spans, 25% span events, 10% span links via meta.annotation_type; several traces), fake-clock advances, send ticks, "
         "ejections and checkAlloc calls on a real InMemCollector (1-3 parked workers) under a random TracesConfig "
         "(TraceTimeout/SendDelay/SpanLimit/MaxExpiredTraces incl. 0 = fall-back/unlimited, all-zero config, "
         "SpanLimit >= 2^32, MaxExpiredTraces = 2^63); ~65% of the advances land exactly on, 1 ns before or 1 ns after "
         "a pending documented deadline; 25% of the cases build a backlog of 6-19 traces against a small MaxExpiredTraces; "
         "~5% of the ops are loop-driven ticks (the real collect() loop of a released worker takes the tick from its own ticker after an idle clock advance during which a deadline usually falls); "
         "non-trivial = a trace was buffered, the clock moved and some tick decided >= 1 trace; distinct by transcript hash",
    trusted_base=["clockwork.FakeClock", "the repository's mocks (config.MockConfig, MockStressReliever, MockSharder, MockPeers, metrics.MockMetrics)",
                  "deterministic sampler with rate 1 (every trace kept, so every decision is visible at the transmission)",
                  "Go map / kpq priority queue tie order treated as an acceptor input (checked, not predicted)"],
    manifest=dict(
        text="Lean theorems over all configurations and all operation histories of a collector worker (arrivals, clock advances of "
             "any size, ticks with any tie-break, ejections): stored SendBy = min(first+TraceTimeout, firstRoot+SendDelay, instant the "
             "span count first exceeded SpanLimit) with the 60 s / 2 s fall-backs measured from the code (deadline_formula, by a simulation "
             "invariant against a history-indexed spec; SendBy only lowered), ticks decide only traces whose deadline has passed, the "
             "decided traces are a prefix of a deadline-sorted order of length min(MaxExpiredTraces, #expired), bounded no-starvation "
             "(backlog shrinks by MaxExpiredTraces per tick whatever else arrives), send-reason selection for every SpanLimit "
             "(full statement; the former uint32 truncation is fixed and kept as a regression case), and a refinement lemma that the Go loop over a "
             "sorted-list priority queue yields an accepted take. Model tied to collect/collector_worker.go + collect/cache/cache.go by "
             "driving the real InMemCollector (workers parked with the code's pause channel; processSpan, sendExpiredTracesInCache, "
             "sendTracesEarly, checkAlloc called directly; fake clock; recording transmission) and comparing SendBy, decided traces, "
             "send reasons and buffer contents step by step, plus a monitor of the documented behaviour on the implementation's own observations.",
        note="Trusted: Lean kernel; the Go harness/oracle differential check (sampled, not exhaustive); fake clock; each step function atomic "
             "on its worker goroutine; sent-trace cache does not forget a decision within a case; traces hold < 2^32 spans.",
        technique="Lean 4 proof (simulation invariant by induction over histories; acceptor specification of the priority queue) + model/implementation correspondence check",
    ),
    assumptions=["each step function (processSpan, sendExpiredTracesInCache, sendTracesEarly) runs atomically on its worker goroutine, as in collect(); the op sequence is the interleaving",
                 "the tick schedule is explicit (any instants), which subsumes every SendTicker value; the configuration is fixed during a case (no reload)",
                 "a decided trace stays in the sent-trace cache for the rest of the case (late spans are not re-buffered)",
                 "a trace holds fewer than 2^32 spans (DescendantCount is a uint32)",
                 "every trace is kept (deterministic sampler, rate 1) so that each decision reaches the recording transmission"],
)
