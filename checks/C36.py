def nontrivial(c):
    ops = [l.split(" ")[1] for l in c["lines"] if l.startswith("op ")]
    obs = [l for l in c["lines"] if l.startswith("obs ")]
    if "stopall" in ops:         # router history: shutdown requested with an upload in flight or an event pending
        return "inflight" in ops or "rtev" in ops
    if "rstop" in ops:           # Retry-After history: something was pending or asleep when Stop was requested
        stop = [o for l, o in zip([l for l in c["lines"] if l.startswith("op ")], obs) if l == "op rstop"]
        return any(" u=d" in o for o in stop)
    if "agstop" in ops:          # agent history: Stop requested while the usage loop had something to do or to wait for
        return any("calls=" in o and "calls=0" not in o for o in obs) or any("loc=pending" in o or "loc=sent" in o for o in obs)
    accepted = any(o.startswith(("obs buf", "obs q ", "obs fw", "obs drop")) for o in obs)
    return "stop" in ops and "txstop" in ops and accepted

SPEC = dict(
    property="C36",
    component="shutdown",
    props_module="Refinery.Props.C36",
    quick=dict(cases=400, len=18, shards=4),
    thorough=dict(cases=12800, len=30, shards=16),
    nontrivial=nontrivial,
    rule="a history of ingestion operations (span arrivals local/peer with 1-3 ns between them, ticks of one SendTicker "
         "period, sendTraces steps, direct EnqueueEvent calls, stale-batch ticks, at most one worker made busy) is generated "
         "once for 1-3 workers, 2-6 traces (65 % kept by the sampler), 1-3 destinations, MaxBatchSize 1/2/3/5, and then cut at "
         "EVERY prefix (the crash points); each case = one prefix + a shutdown sequence (52 % Stop, transmission Stop, goroutine "
         "profile; 16 % Stop landing INSIDE a decision pass: 0-4 more ticks, then a tick during which the first worker that "
         "reaches the hand-over of a kept trace is parked right before `i.tracesToSend <- trace` (hook in the Metrics the "
         "collector is given), Stop is started and the worker released once Stop has closed the input channels; the rest: data "
         "arriving after the stops, transmission stopped first, double stops, clocks running between the stops, Agent.Stop). Runs on a real InMemCollector + real DirectTransmission + in-process fake Honeycomb. "
         "10 % of the histories are ROUTER histories instead: the application wired as cmd/refinery/main.go wires it (inject graph: "
         "every object main.go provides: MockConfig, FilePeers, LocalPubSub, real app.App with both route.Router on 127.0.0.1, "
         "real InMemCollector, two real DirectTransmission, DeterministicSharder, MultiMetrics, SamplerFactory, StressRelief, "
         "health.Health, ConfigWatcher, the OpAMP agent when enabled; fake Honeycomb), configuration drawn from OpAMP.Enabled "
         "{0,1} x StressRelief.Mode {never,monitor,always} x DryRun {0,1} x upstream compression {0,1}, "
         "1-4 complete uploads / uploads left in flight (Expect: 100-continue, half the body), cut at every prefix and followed "
         "by startstop.Stop over g.Objects() with the uploads completed 50 ms later. "
         "A fifth of the histories are RETRY-AFTER histories instead: a real DirectTransmission (fake clock, MaxBatchSize 1-3) in "
         "front of a scripted upstream whose limited destinations refuse with 429/503 + Retry-After r in {1,2,5,30,59} s from the "
         "first attempt until r later and accept from then on; events are enqueued and the clock advances (often to r-1, r, r+1), "
         "cut at every prefix and followed by Stop while a second goroutine keeps advancing the fake clock (so Stop finds events "
         "pending and batches already asleep on their Retry-After). "
         "Two fifths of the histories are AGENT histories instead: the agent's two background loops (started as connect() does) with a "
         "scripted OpAMP client (0-4 SendCustomMessage outcomes: accepted / pending, channel open or already closed, failure; "
         "then failure), 3-10 events of usage recorded / usage ticker fires / client reports the message sent, cut at every "
         "prefix and followed by Agent.Stop (so Stop also arrives while a report is pending or waiting to complete, with or "
         "without a tick queued). "
         "non-trivial = at least one span was accepted before both components were stopped, resp. (retry) a batch was "
         "delivered during Stop, resp. (agent) the usage loop had "
         "called the client or was waiting on it before Stop; distinct by transcript hash",
    trusted_base=[
        "clockwork.FakeClock (two instances: collector, transmission)",
        "harness accessors zz_verif_shutdown.go (collect, transmit, agent): park workers with the code's pause channel, "
        "gate in front of sendTraces (removed before Stop), hook on worker 0's decision cache Stop, TryRLock probe of batchMutex",
        "facebookgo inject + startstop, net/http server Shutdown (router histories; free ports on 127.0.0.1 picked by bind-and-close)",
        "hookMetrics (NullMetrics + park at Histogram('trace_kept_sample_rate'); a pass that is panicking is detected from "
        "runtime.gopanic on the stack of sendExpiredTracesInCache's deferred Histogram call and its goroutine is held there, so the process survives)",
        "recording wrapper around DirectTransmission (serialises EnqueueEvent calls, stalls the sendTraces goroutine for 5 ms during Stop)",
        "net/http + httptest (fake Honeycomb), tinylib/msgp (decoding the batches)",
        "the sampler: DeterministicSampler rate 1 (keep) / RulesBasedSampler 'drop everything' (drop), chosen per trace by the case header",
        "runtime.Stack goroutine dumps (goroutine leftovers; where the agent's loops are blocked: function names and wait state)",
        "scripted OpAMP client + hand-fired capacity-1 ticker for the agent histories (the real opamp-go client is not run)",
    ],
    manifest=dict(
        text="Lean theorems over all schedules of span arrivals, ticks, sendTraces steps, enqueues, batch ticks with Stop of the "
             "collector and of the transmission at any point, for every sampler and configuration: for the code as it is the full "
             "drain statement is REFUTED (witness: one span of a kept trace, then Stop: the trace stays buffered, nothing is "
             "forwarded; second witness: a span still in `incoming` is never read); proved instead: if nothing is buffered or queued "
             "at Stop every accepted span is forwarded iff kept, everything waiting in tracesToSend is forwarded before Stop "
             "returns, full accounting of every accepted span after Stop, DirectTransmission.Stop dispatches every accepted event "
             "and nothing stays pending, enqueue after Stop = panic (nil map, batchMutex left locked) then block for ever, AddSpan "
             "after Stop = panic; Stop's coded order (close inputs, wait workers, close tracesToSend, wait sender) admits no send on the closed "
             "channel for any interleaving with worker passes (no_send_after_close), refuted for the order that closes tracesToSend "
             "before waiting (a worker between keep decision and hand-over panics; observed through a panic-time hook, signature "
             "C36:stop-panics:send-on-closed-channel); the stop sequence (startstop.Stop aborts at the first error; Router.Stop = Shutdown with a grace period) stops every "
             "component whenever what is in flight finishes within the grace period (stop_sequence_runs_all; a 60 ns grace aborts at the "
             "router), observed on the real inject graph for every configuration (C36:stop-aborted:router-error / panic / component-not-stopped); "
             "the shutdown flush honours Retry-After (stop_flush_honours_retry_after: with Clock.Sleep as coded every "
             "accepted event, pending or already asleep, is delivered by the time Stop returns and no retry precedes the announced "
             "instant; refuted for a wait that Stop cuts short); the full statement is proved for the proposed repair (fixed = true); both agent loops (healthCheck, reportUsagePeriodically with "
             "sendUsageReport's pending / completion waits) reach `exited` within 6 of their own steps after cancel from every state, "
             "for every client outcome script and select choice (agent_goroutines_exit_after_stop), observed gone on the real "
             "goroutines after Agent.Stop at every prefix of scripted histories; a loop left behind is a monitored violation. Model tied to collect.go, "
             "collector_worker.go, direct_transmit.go by replaying every prefix of generated histories on the real components "
             "and comparing every observation, plus a monitor of the property on the implementation's own observations.",
        note="Partial by design: 'exits without panicking or leaving goroutines running' is observed (goroutine profile before Start vs after Stop, "
             "recovered panics), not proved. Trusted: Lean kernel; the Go harness/oracle differential check (sampled); fake clocks; "
             "each goroutine step between two blocking points is atomic; at most one busy worker per case.",
        technique="Lean 4 proof (invariant by induction over schedules, refutation by witness) + model/implementation correspondence check at every crash point",
    ),
    assumptions=[
        "TraceTimeout, SendDelay non-zero; SpanLimit, MaxExpiredTraces, memory-pressure ejection, dry-run, stress relief, config reload not exercised",
        "the decision record never forgets a trace (KeptSize 200 per worker, a handful of traces per case)",
        "no two buffered traces of one worker share a SendBy instant (1-3 ns between arrivals), so the priority-queue order is total",
        "a busy (held) worker stays busy until Stop; the last worker is never held (the harness probes its channel to learn that Stop has closed the channels)",
        "the fake Honeycomb answers 200 / 202 for every event; retries, timeouts and error responses are C26's subject",
    ],
)
