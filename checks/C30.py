def nontrivial(c):
    """a registration, an accepted report and a later clock advance that fires at least one tick,
    with IsAlive or IsReady changing its answer somewhere in the case"""
    ops = [l.split(" ") for l in c["lines"] if l.startswith("op ")]
    names = [o[1] for o in ops]
    if not ("reg" in names and "rep" in names and "adv" in names):
        return False
    obs = [l for l in c["lines"] if l.startswith("obs ")]
    ticked = any(" n=" in (" " + l[4:]) and not l.startswith("obs n=0 ") for l in obs)
    answers = {tuple(t for t in l.split(" ") if t.startswith(("a=", "r="))) for l in obs}
    return ticked and len(answers) > 1

SPEC = dict(
    property="C30",
    component="health",
    props_module="Refinery.Props.C30",
    gen_module="Refinery.Gen.Health",
    quick=dict(cases=1600, len=40, shards=4),
    thorough=dict(cases=64000, len=60, shards=16),
    nontrivial=nontrivial,
    rule="cases = random histories of Register / Unregister / Ready(true|false) / clock advances on a real, started "
         "health.Health whose ticker goroutine runs on a wrapped clockwork.FakeClock (1-4 subsystems; timeouts around, at and "
         "below the tick, zero and negative; advances landing exactly on, 1 ns before and 1 ns after tick instants and the "
         "instants report+timeout-tick, report+timeout, report+timeout+tick; keep-alive and long-silence modes); after every "
         "operation IsAlive, IsReady, timeLeft and readies are compared with the model; "
         "non-trivial = has a registration, a report, an advance that fired >= 1 tick, and IsAlive/IsReady changed answer; "
         "distinct by transcript hash",
    trusted_base=["clockwork.FakeClock and its fake ticker (one tick per tick instant when advanced instant by instant)",
                  "harness synchronisation: a tick is complete when the ticker goroutine re-evaluates tick.Chan()",
                  "Go map semantics (modelled as association lists)"],
    manifest=dict(
        text="Lean theorems over all histories of register/unregister/report/tick (exact characterisation of IsAlive and IsReady by "
             "per-subsystem history, -1/0 sentinels included) and over all timed histories (never dead if every gap < timeout - tick, "
             "dead if silent > timeout + tick until the next report, ready only if / if), linked by ticks_in_interval; tick period taken "
             "from the compiled package; model tied to internal/health/health.go by replaying generated histories on the real Health with "
             "its real ticker goroutine on a fake clock and comparing IsAlive/IsReady/timeLeft/readies after every operation, plus a "
             "monitor of the property on the implementation's own answers.",
        note="Trusted: Lean kernel; the Go harness/oracle differential check (sampled, not exhaustive); clockwork fake clock; every tick is "
             "processed before the next operation (an ideal ticker: no dropped or late ticks). The /alive and /ready HTTP/gRPC handlers are not driven.",
        technique="Lean 4 proof (per-subsystem simulation invariant by induction over histories + arithmetic bridge from intervals to tick counts) "
                  "+ model/implementation correspondence check",
    ),
    assumptions=["ideal ticker: a tick fires at every multiple of TickerTime after Start and its effect is complete before the next operation "
                 "(the real goroutine can lag or drop ticks under scheduler pressure; not modelled)",
                 "each Health method and each tick body is atomic (they hold the mutex)",
                 "never-dead needs timeout > 0 and dead-if-silent needs timeout >= 0 (zero/negative timeouts are accepted by Register and behave "
                 "as the model says: 0 is dead at the first report, a negative one is never dead and never ready)",
                 "'no subsystem has unregistered' is read as 'no subsystem whose latest register/unregister is an unregister' "
                 "(the code lets a subsystem re-register and become ready again)",
                 "the alives map (log lines only), metrics gauges and the /alive, /ready handlers are outside the model"],
)
