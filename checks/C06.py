def nontrivial(c):
    ops = [l.split(" ")[1] for l in c["lines"] if l.startswith("op ")]
    fwd = any(l.startswith("obs sent ") or l.startswith("obs late ") or l.startswith("obs fwd ") for l in c["lines"])
    return fwd and "reload" in ops

SPEC = dict(
    property="C06",
    component="decorate",
    props_module="Refinery.Props.C06",
    quick=dict(cases=400, len=40, shards=4),
    thorough=dict(cases=8000, len=60, shards=16),
    nontrivial=nontrivial,
    rule="cases = random histories on a real InMemCollector (2 parked workers, fake clock, recording MockTransmission): traces mixing "
         "spans, span events and links with on-time, late, repeated or missing roots; decisions by real deterministic / rules samplers "
         "or a scripted sampler answer (reasons with spaces and separators, empty reason, sample keys); sendTraces on one decided trace; "
         "late spans; ProcessSpanImmediately; reloads through MockConfig.Reload() -> monitor -> reloadConfigs -> worker reload branch "
         "toggling AddHostMetadataToTrace, AddRuleReasonToTrace, AddSpanCountToRoot, AddCountsToRoot, DryRun and redrawing "
         "AdditionalAttributes (incl. an attribute overriding a span field and an empty value), also between decision and forwarding; "
         "non-trivial = contains a reload and at least one forwarded span; distinct by transcript hash",
    trusted_base=["transmit.MockTransmission records what EnqueueSpan receives",
                  "types.Payload.All/Get report the fields that would be serialised",
                  "config.MockConfig (wrapped so that GetAddCountsToRoot answers from its own AddCountsToRoot field; the mock returns AddSpanCountToRoot)",
                  "os.Hostname() is non-empty on the machine running the check"],
    assumptions=["the sampler's answer (rate, keep, reason, key) and StressRelief.GetSampleRate's answer are parameters (recorded from the real objects)",
                 "decision records are not evicted (caches sized accordingly); the cuckoo drop filter has no false positives on the generated ids",
                 "additional attribute keys are distinct from the field names Refinery writes itself",
                 "one collector step at a time (workers parked; the sendTraces goroutine is given one trace and awaited)",
                 "count fields left on a root by send() under the configuration in force at decision time are tolerated by the monitor when the option was switched off between decision and forwarding (the model reproduces them exactly)"],
    manifest=dict(
        text="Lean theorems over all configurations, traces and histories of the collector model: decorated_ontime / decorated_late / "
             "decorated_stress (attributes, captured hostname, reasons, stress marker of the configuration in force at the forwarding step), "
             "root_counts_on_time (counts of the spans buffered at the decision, through decide -> reload -> sendTraces), root_counts_late "
             "(counts at decision + every span arrived since, any history in between, uint32 counters), host_constant, "
             "reload_applies_partial and reload_applies_refuted (AddHostMetadataToTrace is read only by Start); model tied to collect.go / "
             "collector_worker.go / cuckooSentCache.go / types.Payload by replaying generated histories incl. reloads on a real "
             "InMemCollector and comparing every field of every forwarded span, plus a monitor that recomputes the expected decoration "
             "from the operations and the configuration in force.",
        note="Trusted: Lean kernel; the Go harness/oracle differential check (sampled, not exhaustive); repository mocks; sampler and stress-reliever answers are parameters.",
        technique="Lean 4 proof (field-level frame reasoning + counting invariant over operation histories) + model/implementation correspondence check",
    ),
)
