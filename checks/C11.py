def nontrivial(c):
    # a configured field list and at least three different traces whose keys were observed
    if "fields=-" in c["header"].split(" "):
        return False
    traces = set()
    for l in c["lines"]:
        if l.startswith("op key ") or l.startswith("op sample "):
            traces.add(l.split(" ")[-1])
    has_key = any(l.startswith("obs k=") or l.startswith("obs rate=") for l in c["lines"])
    return has_key and len(traces) >= 3


SPEC = dict(
    property="C11",
    component="tracekey",
    props_module="Refinery.Props.C11",
    gen_module="Refinery.Gen.Tracekey",
    quick=dict(cases=1200, len=130, shards=4),
    thorough=dict(cases=32000, len=130, shards=16),
    nontrivial=nontrivial,
    rule="cases = one sampler configuration (0-3 key fields, 0-2 root.-prefixed fields, UseTraceLength on/off) and a "
         "family of traces run through the real traceKey.build and the five real samplers' GetSampleRate: a base trace "
         "of 1-5 spans (typed logical values: strings incl. empty and with delimiters, every Go integer type incl. uint64 around 2^63 and 2^64-1, MinInt64, the same number under several types, floats, bool, nil, slices) with every permutation "
         "of its spans (all 120 for 5 spans in 40% of those cases, 24 random ones otherwise), duplicated spans, "
         "one-value mutations, 97-199 distinct values around the cap of 100, edge configurations, and families of small traces over a small value pool (empty-string pool, integer-edge pool) for the separation claim; "
         "non-trivial = a non-empty field list and at least 3 different traces whose key was observed; "
         "distinct by transcript hash",
    trusted_base=["math/rand made reproducible with rand.Seed (GODEBUG randseednop=0 in the harness binary only): the draw is "
                  "recomputed by the harness with the same seed and the returned rate",
                  "the text of float64 / other-typed values is taken from the Go standard library (strconv.FormatFloat 'f' -1, fmt %v), computed by the harness itself, never from AddAsString; "
                  "strings, all Go integer types, bool and nil are rendered by the Lean model; dynsampler's answer is taken from the running dynsampler as `ext`",
                  "types.NewPayload (memoized fields) as the span payload"],
    manifest=dict(
        text="Lean theorems over all traces, field lists and value renderings: the key is a function of the per-field sets of "
             "distinct values, the root span and (UseTraceLength) the span count (key_determined), hence invariant under any "
             "permutation (perm_invariant) and under duplicating spans (dup_invariant / dup_changes_only_length) below the cap; "
             "key separation (key_separates: all fields present, some value set differs, values free of the delimiters - the empty "
             "string allowed - below the cap => different keys) is proved at full strength for the repaired loop of commit a1a4703; "
             "rate_floor, never_panics, keep_iff_draw_zero, keep_one_in_rate for every dynsampler answer (negative included) and every draw. The model is tied to "
             "sample/trace_key.go and the five samplers by running generated traces through the real code and comparing every "
             "key, count, rate and keep decision, plus a monitor of the property on the implementation's own observations.",
        note="Trusted: Lean kernel; the differential check (sampled); Go's formatting, wyhash (no collision among a trace's values), "
             "dynsampler-go and math/rand uniformity are external. Fixed finding (a1a4703): empty-string values used to be dropped from the key; corpus/C11/empty-string-value.ops is the regression case.",
        technique="Lean 4 proof (canonical form of the key below the cap; parsing the key back for separation) + model/implementation correspondence check",
    ),
    assumptions=["distinctValue dedups by wyhash of the rendering; the model dedups by the rendering (no 64-bit collision among one trace's values)",
                 "values are logical, type-tagged values supplied by the generator; the key is text, so separation carries the explicit hypothesis RenderInj (different values involved in a field render differently): int64 1, uint64 1, \"1\" and float64 1 in one field are indistinguishable by design of the key format (TestDistinctValue_AddAsString expects it); integers with different numbers always render differently (render_int_inj)",
                 "sort.Strings (byte order) equals Lean's String order (code point order) on valid UTF-8; generated strings are valid UTF-8",
                 "key separation is claimed below the cap only (fewer than maxKeyLength distinct (field,value) pairs in both traces)",
                 "dynsampler's answer is any Go int (forced to 0, negative and max-int values in the harness); since commit 6dd5492 it is clamped to >= 1 before the uint conversion, so GetSampleRate never panics (never_panics); any panic is a monitor failure",
                 "rand.Intn(n) is uniform on [0,n): 'keeps with probability 1/rate' is proved as 'exactly one of the n draws keeps'",
                 "span payload fields named meta.* (served from dedicated Payload fields) are not generated"],
)
