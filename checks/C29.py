import re


def _present(line, key):
    m = re.search(r" %s=(\S+)" % key, line)
    return bool(m) and m.group(1) != "-"


def nontrivial(c):
    """a case is non-trivial when some start-up in it has at least two competing sources for the
    setting under test, or an expansion op contains the opener `${` (%24%7B)"""
    for l in c["lines"]:
        if l.startswith("op load "):
            n = sum(_present(l, k) for k in ("F0", "E0", "F1", "E1", "A", "B"))
            if n >= 2:
                return True
        elif l.startswith("op exp ") and "%24%7B" in l:
            return True
    return False


SPEC = dict(
    property="C29",
    component="settings",
    props_module="Refinery.Props.C29",
    gen_module="Refinery.Gen.Settings",
    # every case = every setting of the reflected table (45 at this commit) started up once through the
    # real loader with one source combination, plus `len` string-level expansion ops; the 16 combinations
    # rotate over cases and shards, so 48 cases = each (setting, combination) pair with 3 value draws
    quick=dict(cases=48, len=30, shards=8),
    thorough=dict(cases=1600, len=60, shards=16),
    nontrivial=nontrivial,
    rule="a case runs EVERY setting of the table enumerated by reflection from the real config structs on this run "
         "(cmdenv-tagged or string-typed; the table and its size are in coverage.facts) once, as a complete start-up of "
         "the real loader (temp files, os.Setenv, go-flags on a synthetic argv, config.NewConfig with or without "
         "--no-validate) under one of the 16 flag?/env?/file1?/file2? combinations (rotating over cases and shards), "
         "then `len` calls of the real expandEnvVarsInString on strings built from $ { } fragments and set/unset "
         "variables; non-trivial = some start-up has >= 2 competing sources or some expansion input contains `${`; "
         "distinct by transcript hash",
    trusted_base=["jessevdk/go-flags tokenisation of argv (the model starts from the values given to each flag)",
                  "gopkg.in/yaml.v3 encoding/decoding of strings, string lists and string maps (identity in the model)",
                  "creasty/defaults (modelled: zero string/number takes the default, nil slice/map takes it)",
                  "the per-field validator (Metadata.Validate) is a parameter of the model; its graph on the values "
                  "that occur is supplied by the harness from the real validator"],
    manifest=dict(
        text="Lean theorems over all settings descriptors, sources and environments: a non-zero flag/variable value beats "
             "files and default, a given flag hides its variable, the last file that mentions a setting wins (maps key by "
             "key), nothing configured gives the default; ${VAR} expansion as a character-level matcher (unset => "
             "unchanged, nothing outside ${...} touched, one reference replaced exactly, not idempotent with witness); "
             "an accepted start-up uses the value the final validation pass accepted. List-valued options take every element given (full statement "
             "proved after the repair of applyCmdEnvTags). Refuted with witnesses reproduced on the real loader: "
             "validation pass 1 refuses file values that a flag/variable overrides; the API-key placeholder. Model tied to config/cmdenv.go, configLoadHelpers.go, "
             "file_config.go by running every reflected setting x 16 source combinations through the real loader and "
             "comparing effective value / rejection with the model, plus a monitor with the documented reading.",
        note="Trusted: Lean kernel; go-flags, yaml.v3, creasty/defaults as characterised above; differential check is "
             "sampled over values (complete over settings x source combinations); YAML files only (no TOML/JSON/URL sources).",
        technique="Lean 4 proof (structural induction over strings / option lists / file lists) + model/implementation "
                  "correspondence check with the settings table enumerated by reflection",
    ),
    assumptions=["config files are YAML (TOML, JSON and http(s) locations are not exercised)",
                 "two config files per start-up (the theorems are for any number)",
                 "env-delim tags are single characters (checked by the harness on every run)",
                 "an unset and an empty environment variable are the same thing (os.Getenv), in the model as in the code",
                 "present-but-zero sources (empty flag, empty variable, \"\" / [] in a file) follow the code exactly in the "
                 "model (theorems empty_flag_hides_env, empty_string_takes_default); the monitor's documented reading is "
                 "only evaluated when every present source is non-zero",
                 "two coded exceptions to validated = used are part of the model and not reported: the literal "
                 "InvalidHoneycombAPIKey validated in place of an empty logger/metrics/tracing API key, and omitempty "
                 "fields (ClusterName, Prefix) whose zero value is absent from the re-marshalled config"],
)
