import glob, hashlib, json, os

ENDPOINTS = 7              # the six ingest endpoints + one kept instance of the /1/ API-key middleware
OPS_PER_ENDPOINT = 12      # 8 keys in X-Honeycomb-Team, 3 in X-Hny-Team, 1 without any key header


def _kv(tokens, key):
    for t in tokens:
        if t.startswith(key + "="):
            return t[len(key) + 1:]
    return None


def nontrivial(c):
    """some request accepted with data leaving, and in the same case a refusal or a replaced key"""
    ok = refused = replaced = False
    key = None
    for l in c["lines"]:
        t = l.split(" ")
        if t[0] == "op":
            key = _kv(t, "key") if _kv(t, "hdr") != "none" else "%"
        elif t[0] == "obs":
            st, sent = _kv(t, "st"), _kv(t, "sent")
            if st == "ok" and sent not in (None, "-"):
                ok = True
                if sent != key:
                    replaced = True
            elif st != "ok":
                refused = True
    return ok and (refused or replaced)


def custom(vc, spec, tier, seed, replay):
    """generic pipeline, then measure on this run's transcripts whether the finite grid
    (configuration x endpoint x client-key class x header) was enumerated completely."""
    sp = {k: v for k, v in spec.items() if k != "custom"}
    rc = vc.generic_check(sp, spec["property"], tier, seed, replay)
    evp = os.path.join(vc.VERIF, "evidence", spec["property"] + ".json")
    try:
        ev = json.load(open(evp))
    except Exception:
        return rc
    cov = ev["coverage"]
    want = int(cov.get("facts", {}).get("gridSize", "0") or 0)
    cells, requests = {}, 0
    wd = spec["property"] + ("" if vc.REPO == "/repo" else "-" + hashlib.sha1(vc.REPO.encode()).hexdigest()[:10])
    for trf in glob.glob(os.path.join(vc.CACHE, "run", wd, "s*.tr")):   # this run's transcripts (same naming as vcheck's workdir)
        for c in vc.parse_cases(open(trf).read()):
            g = int(_kv(c["header"].split(" "), "grid") or 0)
            if g <= 0:
                continue
            reqs = set()
            ops = [l for l in c["lines"] if l.startswith("op ")]
            obs = [l for l in c["lines"] if l.startswith("obs ")]
            for l in ops:
                t = l.split(" ")
                reqs.add((_kv(t, "ep"), _kv(t, "hdr"), _kv(t, "key")))
            if len(obs) == len(ops) and len(reqs) == ENDPOINTS * OPS_PER_ENDPOINT:
                cells[g] = max(cells.get(g, 0), len(reqs))
    requests = sum(cells.values())
    complete = want > 0 and set(cells) == set(range(1, want + 1))
    cov["exhaustive"] = bool(complete and not replay and not cov.get("broken"))
    cov["grid"] = {"configurations_expected": want, "configurations_enumerated": len(cells),
                   "requests_per_configuration": ENDPOINTS * OPS_PER_ENDPOINT, "requests_enumerated": requests,
                   "space": "SendKeyMode (from the config metadata) x AcceptOnlyListedKeys x SendKey {unset, classic, E&S} x "
                            "ReceiveKeys {none, set} x ReceiveKeyIDs {none, set}; per configuration 6 endpoints + a kept instance of the /1/ key middleware x "
                            "client key {blank, =SendKey, listed classic, listed E&S, listed by key ID, classic key whose ID "
                            "would be listed, unlisted classic, unlisted E&S} in X-Honeycomb-Team, 3 keys in X-Hny-Team, no header"}
    vc.write_evidence(spec["property"], ev)
    return rc


SPEC = dict(
    property="C24",
    component="auth",
    props_module="Refinery.Props.C24",
    gen_module="Refinery.Gen.Auth",
    custom=custom,
    quick=dict(cases=400, len=40, shards=2),
    thorough=dict(cases=8 * 700, len=60, shards=8),
    nontrivial=nontrivial,
    rule="each generator shard first enumerates the complete configuration grid (mode x AcceptOnlyListedKeys x SendKey shape x "
         "ReceiveKeys x ReceiveKeyIDs = 144 configurations, 84 requests each: every endpoint x every client-key class x header "
         "variant, concrete key strings drawn from the seed), then adds random configurations (longer lists, SendKey listed, "
         "empty-string list members, out-of-list modes, near-miss keys, and in 60% of them a reload of the access-key "
         "configuration in the middle of the case); router, gRPC servers and the middleware instance are built once per process, "
         "before any case's configuration is in force, so every request runs against a configuration loaded after construction; a case = one configuration with its requests run "
         "against the real router / gRPC handlers; non-trivial = a request accepted with data leaving and, in the same case, a "
         "refusal or a replaced key; distinct by transcript hash",
    trusted_base=["husky v0.43.1 header validation (blank key refused) — re-established by `facts` on every run",
                  "gorilla/mux routing, net/http/httptest, grpc metadata contexts (gRPC handlers are called in-process, "
                  "not through a network listener)",
                  "repo mocks: MockConfig, MockTransmission, MockCollector, MockSharder; /1/auth lookup stubbed"],
    manifest=dict(
        text="Lean theorems over all configurations, keys and key IDs: IsAccepted = the stated acceptance rule (accept_spec), "
             "GetReplaceKey = the documented SendKeyMode table per key class (replace_table, table tied to the compiled code by "
             "`facts`), nothing leaves blank (never_blank), all six endpoints = accept-on-client-key-then-replace (uniform; the "
             "second acceptance check of gRPC traces on the replaced key is proved redundant) and = the documented outcome "
             "(endpoints_match_documentation). Model tied to the code by running the complete finite grid on the real router and gRPC "
             "handlers and comparing status, refusal reason and upstream key of every request with the model; monitor on the "
             "implementation's own answers against the documented outcome.",
        note="Trusted: Lean kernel; the differential check (grid complete, random part sampled); husky's blank-key refusal; "
             "in-process invocation of the gRPC handlers; stubbed /1/auth.",
        technique="Lean 4 proof (case analysis lifted from a finite table by a class lemma) + exhaustive model/implementation "
                  "correspondence check",
    ),
    assumptions=["the /1/auth lookup succeeds (lookup failures belong to C23)",
                 "requests are otherwise well-formed (content type, dataset header, body)",
                 "configurations listing the empty string among ReceiveKeys are outside the documented table "
                 "(model comparison only, no monitor verdict)",
                 "endpoints follow a reload because mux rebuilds the middleware chain per matched request (gorilla/mux v1.8.1 "
                 "Router.Match) — observed through the real router, not assumed; the kept-instance comparison pins the closure's "
                 "own per-request lookup as a correspondence obligation (model comparison only, no monitor verdict)",
                 "husky refuses a blank API key during translation (Env.HuskySpec)"],
)
