def nontrivial(c):
    """a decision took a trace, a later span of a decided trace met (or missed) the record, and the
    collector reached quiescence so that all-or-nothing was evaluated"""
    took = any(l.startswith("obs w=") and "took=-" not in l for l in c["lines"])
    late = any(l.startswith("obs late ") or l == "obs dropped" for l in c["lines"])
    quiet = any(l.startswith("obs buf=- pending=0") for l in c["lines"])
    return took and late and quiet


SPEC = dict(
    property="C01",
    component="collector",
    props_module="Refinery.Props.C01",
    quick=dict(cases=400, len=60, shards=4),
    thorough=dict(cases=12800, len=160, shards=16),
    nontrivial=nontrivial,
    rule="cases = random interleavings of span arrivals (on time / late / racing sendTraces), ticks at a chosen trace's "
         "deadline, whole-worker ticks, memory ejections, sendTraces iterations, reloads (sampler generation, DryRun), kept-capacity resizes (35 in 100 cases) and stress-relief episodes in which spans take ProcessSpanImmediately (30 in 100 cases) on a "
         "real InMemCollector with 1-4 workers and kept-record capacity 1-3 (or 50), run to quiescence; non-trivial = a "
         "decision took a trace, a later span of a decided trace met its record (forwarded or dropped as late span) and the "
         "collector reached quiescence so that all-or-nothing was evaluated; about a quarter of the cases evict a kept record "
         "(those exercise the 'forgotten' branch of the model, not the theorem's conclusion); TraceTimeout/SendDelay drawn per case from (10 s,2 s),(60 s,0.1 s),(1 s,1 s),(2 s,2 s),(1 s,3 s),(1 s,60 s) - i.e. also TraceTimeout <= SendDelay, where 60 in 100 spans are roots (root-first and single-span traces); distinct by transcript hash",
    trusted_base=["clockwork.FakeClock", "transmit.MockTransmission as the recording transmission",
                  "harness gate between send() and the real sendTraces goroutine (zz_verif_collector.go)",
                  "hashicorp LRU modelled as textbook LRU, cuckoo filter + recent-drop set modelled as an exact set "
                  "(both checked by the correspondence on every late span)"],
    manifest=dict(
        text="Lean theorems over all operation histories, samplers, worker assignments and kept-record capacities: a trace whose "
             "decision is remembered is decided at most once; once it has left the buffer and tracesToSend, and DryRun was never on, "
             "either every accepted span (late ones included) was forwarded exactly once or none was, and which of the two is the "
             "sampler's decision; proved witnesses show the 'remembered' (kept-capacity eviction, filter false positive) and DryRun "
             "hypotheses are necessary.  Model tied to collect.go / collector_worker.go / cuckooSentCache.go by driving a real "
             "InMemCollector (workers parked with the code's own pause channel, spans through AddSpan and the real collect loop, "
             "fake clock, recording transmission) and comparing every step, plus all-or-nothing monitors at quiescence.",
        note="Trusted: Lean kernel; the differential check (sampled); each worker step atomic; "
             "single node (cluster membership stable); stress relief enters as the explicit hypothesis StressConstant.",
        technique="Lean 4 proof (invariants by induction over histories) + model/implementation correspondence check",
    ),
    assumptions=["each worker step (processSpan, sendExpiredTracesInCache, sendTracesEarly, reload branch) and each sendTraces "
                 "iteration runs to completion without interleaving inside it",
                 "which traces a tick/ejection takes is an input of the model (deadline arithmetic is C03/C07)",
                 "whether the node is stressed is an input (op `stress`); the stress level computation is C15; the router's "
                 "stressed branch (processEvent) is replicated by the harness: Stressed() -> ProcessSpanImmediately, else AddSpan",
                 "DryRun off throughout for all-or-nothing (dry run forwards dropped traces by design; C05)"],
)
