def nontrivial(c):
    """a non-zero reading, a report that was delivered and a report that failed"""
    added = delivered = failed = False
    lines = c["lines"]
    for i, l in enumerate(lines):
        p = l.split(" ")
        if p[0] != "op":
            continue
        obs = lines[i + 1] if i + 1 < len(lines) and lines[i + 1].startswith("obs ") else ""
        if p[1] == "add" and len(p) > 3 and p[3] != "0":
            added = True
        elif p[1] == "tick":
            if " made=none" not in obs and " got=none" in obs:
                failed = True
            if obs and " got=none" not in obs:
                delivered = True
        elif p[1] in ("ltick", "confirm"):     # loop mode
            if " acc=none" not in obs and " acc=" in obs:
                delivered = True
            if " insend=1" in obs and p[1] == "ltick" and " sends=0" in obs:
                failed = True                   # a tick elapsed while the previous report was unconfirmed
            if " sends=" in obs and " sends=0" not in obs and " acc=none" in obs:
                failed = True                   # a send was refused
        elif p[1] == "fail":
            failed = True
        elif p[1] == "sent":
            delivered = True
    return added and delivered and failed


SPEC = dict(
    property="C34",
    component="usage",
    props_module="Refinery.Props.C34",
    quick=dict(cases=1200, len=40, shards=4),
    thorough=dict(cases=64000, len=60, shards=16),
    nontrivial=nontrivial,
    rule="cases = random histories on the real usageTracker behind a real Agent.sendUsageReport with a scripted OpAMP client: "
         "cumulative readings for the 4 signals (unchanged readings, zero readings, big values; counter restarts in 15% of cases), "
         "whole send-loop iterations against scripted SendCustomMessage answers (per call: accepted / pending / error, or a channel "
         "never closed before shutdown; scripts a, pa, e, pe, pp, p, ppp, ppa, pep, ...) in runs of 0-4 failures, Add calls "
         "during the send; (25% of cases) raw NewReport / completeSend / give-up interleavings; (25%) the real reportUsagePeriodically "
         "goroutine on the fake clock against a one-slot client whose confirmation comes 0-2 ticks late, with send errors and foreign "
         "messages in the slot, observed whenever all agent goroutines are parked; every op's answer (decoded OTLP "
         "payload, error class, number of SendCustomMessage calls, the tracker's three maps) is compared with the model; "
         "non-trivial = has a non-zero reading, a delivered report and a failed report (loop mode: a refused send or a tick that "
         "elapsed while a report was unconfirmed); distinct by transcript hash",
    trusted_base=["scripted OpAMP client (fake client.OpAMPClient: only SendCustomMessage; per-call answers accepted/pending/error, channel closed or never closed + shutdown)",
                  "pmetric.JSONUnmarshaler used to decode the report payload", "clockwork.FakeClock",
                  "quiescence of the loop goroutine detected from runtime.Stack (all goroutines running *agent.Agent methods parked in select / chan receive)",
                  "Go map semantics (modelled as bags of contributions: entry exists iff a contribution of the signal exists)"],
    manifest=dict(
        text="Lean theorems over all histories of Add / NewReport / completeSend / send-failure in any interleaving (and over all "
             "agent-level histories of readings and send outcomes, shown to be such histories): exact accounting (sent + waiting + "
             "dropped = counter growth), conservation refuted on the code as it is by a proved witness (two consecutive failed "
             "sends drop the first report's usage) and proved under 'no failure while carrying an earlier failed report', proved "
             "for the tracker with the proposed repair; no contribution is in two delivered reports; no report ever has a negative "
             "data point, and with non-restarting counters the tracker never holds one. Model tied to agent/usage_report.go and "
             "agent.go sendUsageReport by replaying generated histories on the real code and comparing every answer and the "
             "tracker's maps, plus a conservation/negativity monitor on the implementation's own observations.",
        note="Trusted: Lean kernel; the Go harness/oracle differential check (sampled, not exhaustive); the scripted OpAMP client; "
             "readings are integers < 2^53 (float64 exact); each tracker method atomic under its mutex. The model mirrors the "
             "current code, which violates conservation (known finding).",
        technique="Lean 4 proof (additive-measure invariant by induction over histories, ghost provenance of every Add delta) "
                  "+ model/implementation correspondence check",
    ),
    assumptions=["readings are non-negative integers below 2^53 so float64 arithmetic is exact (values of 2^63 and above, where int64 conversion misbehaves, are out of scope)",
                 "each usageTracker method is atomic (holds the tracker mutex); Add may interleave between NewReport and completeSend and does in the generated cases",
                 "agent shutdown is modelled only as 'cancelled while waiting on a channel that never closes'; nothing is run or judged after it (the select is then a race)",
                 "'delivered' means SendCustomMessage returned no error and the returned channel was closed; the OpAMP transport itself is out of scope",
                 "only the four signals the agent reports are used (an unknown signal makes NewReport fail; the agent never adds one)"],
)
