def nontrivial(c):
    """a monitor-mode reload, a clock advance, a peer report, and at least two recalculations of
    which at least one has relief on and a later one has it off (an on->off episode was exercised)"""
    ops = [l.split(" ") for l in c["lines"] if l.startswith("op ")]
    names = [o[1] for o in ops]
    if not any(o[1] == "reload" and o[2] == "monitor" for o in ops):
        return False
    if "adv" not in names or "peer" not in names or names.count("recalc") < 2:
        return False
    ons = []
    cur = None
    for l in c["lines"]:
        if l.startswith("op "):
            cur = l.split(" ")[1]
        elif l.startswith("obs ") and cur == "recalc":
            ons.append(" on=1 " in l)
    seen_on = False
    for o in ons:
        if o:
            seen_on = True
        elif seen_on:
            return True
    return False


SPEC = dict(
    property="C15",
    component="stress",
    props_module="Refinery.Props.C15",
    gen_module="Refinery.Gen.Stress",
    quick=dict(cases=2400, len=60, shards=4),
    thorough=dict(cases=96000, len=90, shards=16),
    nontrivial=nontrivial,
    rule="cases = random histories of reload (mode/thresholds/minimum duration; 15% with activation < deactivation) / "
         "local gauges (14% outside [0, capacity]: heap / queue lengths above capacity by 1%, 50%, 10x, negative, zero or negative denominators) / peer messages (incl. own id, zero and >100 levels, malformed) / clock advances (60% exactly on, 1 ns "
         "before or after a report-expiry or hold-expiry instant) / Recalc on a real StressRelief with a fake clock; "
         "non-trivial = has a monitor-mode reload, a clock advance, a peer report and >= 2 recalculations with relief "
         "observed on and later off; distinct by transcript hash",
    trusted_base=["clockwork.FakeClock", "metrics.MockMetrics / config.MockConfig as the sources of gauges and settings",
                  "Go map semantics (modelled as an association list)",
                  "float64 sqrt/division of clusterStressLevel vs integer floor-sqrt: compared on every generated recalculation, "
                  "not proved equal (exact for levels < 2^20 and < 2^10 peers by a rounding argument, see Model/StressRelief.lean)"],
    manifest=dict(
        text="Lean theorems over all histories of own-level readings, peer reports (with expiry), clock advances, reloads and "
             "recalculations, about every recalculation of the history: level = max(own, floor RMS of the recent non-zero reports) "
             "(simulation between the code's expiring map and a history-indexed view), level <= B when reports and own level are; "
             "never/always modes; relief on when level >= activation (partial: needs deactivation <= activation, full statement "
             "refuted by a validated configuration); on->off only below deactivation and strictly after the minimum duration since "
             "relief was last on at or above it (unconditional), and since the level was last at or above it at all (needs no "
             "always-mode and ordered thresholds; both shown necessary); converse (off when due). Model tied to collect/stressRelief.go "
             "by replaying generated histories on a real StressRelief (real Start with the loop disabled, Recalc / UpdateFromConfig / "
             "onStressLevelUpdate called directly, fake clock) and comparing levels, relief state, stayOnUntil and the report map after "
             "every call, plus a monitor of the theorems' conclusions on the implementation's own observations.",
        note="Trusted: Lean kernel; the sampled differential check; fake clock and mock metrics/config; the node's own level (float "
             "sqrt/sigmoid of metric ratios) is an input read back from Recalc's return value, only its range is assumed by level_bounded; "
             "Recalc, UpdateFromConfig and the message handler are each treated as atomic (the code splits Recalc over two lock sections).",
        technique="Lean 4 proof (invariants by induction over histories, lifted to every recalculation) + model/implementation correspondence check",
    ),
    assumptions=["Recalc, UpdateFromConfig and onStressLevelUpdate are atomic with respect to each other (Recalc releases the lock between "
                 "clusterStressLevel and the mode switch; an interleaved report or reload there is not modelled)",
                 "levels are below 2^32 and there are fewer than 2^10 live reports (float64 RMS = integer RMS; uint level*level does not wrap)",
                 "the injected clock never goes backwards; the zero time.Time is before every clock instant",
                 "the periodic loop of Start only calls Recalc (every 100 ms) and publishes; it is not run by the harness"],
)
