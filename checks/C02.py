def _obs(c):
    return [l for l in c["lines"] if l.startswith("obs ")]


def nontrivial(c):
    """a decision that took a trace, a late span that met the recorded decision, and a sendTraces
    iteration that forwarded something"""
    obs = _obs(c)
    took = any(o.startswith("obs w=") and "took=-" not in o for o in obs)
    late = any(o.startswith("obs late ") or o == "obs dropped" for o in obs)
    fwd = False
    prev = ""
    for l in c["lines"]:
        if l.startswith("obs ") and prev in ("op drain", "op flush") and l != "obs empty":
            fwd = True
        if l.startswith("op "):
            prev = l
    return took and late and fwd


SPEC = dict(
    property="C02",
    component="collector",
    props_module="Refinery.Props.C02",
    quick=dict(cases=400, len=60, shards=4),
    thorough=dict(cases=12800, len=160, shards=16),
    nontrivial=nontrivial,
    rule="cases = random interleavings of span arrivals (on time / late / racing sendTraces), ticks at a chosen trace's "
         "deadline, whole-worker ticks, memory ejections, single sendTraces iterations, reloads (sampler generation, DryRun), kept-capacity resizes and stress-relief episodes (spans through ProcessSpanImmediately) on "
         "a real InMemCollector with 1-4 workers, kept-record capacity 1-3 (or 50), MaxExpiredTraces 0-2; non-trivial = at "
         "least one decision took a trace, at least one late span met the decision record and one sendTraces iteration "
         "forwarded spans; TraceTimeout/SendDelay drawn per case from (10 s,2 s),(60 s,0.1 s),(1 s,1 s),(2 s,2 s),(1 s,3 s),(1 s,60 s) - i.e. also TraceTimeout <= SendDelay, where 60 in 100 spans are roots (root-first and single-span traces); distinct by transcript hash",
    trusted_base=["clockwork.FakeClock", "transmit.MockTransmission as the recording transmission",
                  "harness gate between send() and the real sendTraces goroutine (zz_verif_collector.go)",
                  "hashicorp LRU modelled as textbook LRU, cuckoo filter + recent-drop set modelled as an exact set "
                  "(both checked by the correspondence on every late span)"],
    manifest=dict(
        text="Lean theorems over all operation histories, all samplers, all worker assignments and kept-record capacities: "
             "forwarded spans are duplicate-free, a subset of the accepted spans, never belong to a trace dropped outside dry run, "
             "are only sent for decided traces, and every accepted span of a kept, still-remembered trace is forwarded exactly once "
             "once tracesToSend is drained (conservation invariant: accepted = buffered + queued + forwarded + dropped); the model is "
             "tied to collect.go / collector_worker.go by driving a real InMemCollector (workers parked with the code's own pause "
             "channel, fake clock, recording transmission) and comparing every step with the model, plus monitors on what reached "
             "the transmission.",
        note="Trusted: Lean kernel; the differential check (sampled); each worker step atomic; time at which a trace is decided is "
             "an input (C03/C07 cover it); stress level computation (C15) is an input.",
        technique="Lean 4 proof (conservation invariant by induction over histories) + model/implementation correspondence check",
    ),
    assumptions=["each worker step (processSpan, sendExpiredTracesInCache, sendTracesEarly, reload branch) and each sendTraces "
                 "iteration runs to completion without interleaving inside it",
                 "which traces a tick/ejection takes is an input of the model (deadline arithmetic is C03/C07)",
                 "liveness ('eventually decided') is reduced to: a decision cannot be refused (decide_clears) + tick fairness",
                 "whether the node is stressed is an input (op `stress`); the router's stressed branch is replicated by the harness"],
)
