def _lists(c):
    h = dict(p.split("=", 1) for p in c["header"].split(" ") if "=" in p)
    names = set()
    for key in ("tn", "pn"):
        v = h.get(key, "-")
        if v != "-":
            names.update(v.split(","))
    return names


def nontrivial(c):
    ids = _lists(c) | {"meta.trace_id", "meta.signal_type"}
    for l in c["lines"]:
        if l.startswith("op ev "):
            toks = l.split(" ")
            n = sum(1 for t in toks if (t.startswith("k:") or t.startswith("K:")) and t[2:] in ids)
            if n >= 2:
                return True
    return False


SPEC = dict(
    property="C21",
    component="payload",
    props_module="Refinery.Props.C21",
    gen_module="Refinery.Gen.Payload",
    quick=dict(cases=2400, len=12, shards=4),
    thorough=dict(cases=240000, len=12, shards=16),
    nontrivial=nontrivial,
    rule="cases = a generated configuration (TraceNames 0-3 names in random order, ParentNames 0-2, sampling-key fields, "
         "rarely overlapping or reserved names) and a sequence of events sent through the real /1/batch handler (msgpack body, "
         "JSON body), the real /1/events handler (JSON body, repeated 4 times because ExtractMetadata ranges over a Go map) and the "
         "OTLP metadata-only msgpack unmarshaller + processEvent, each event carrying a random subset, order and typing (non-empty "
         "string, empty string, binary, integer, nil, bool, float) of the configured trace-ID and parent-ID fields, meta.trace_id, "
         "meta.signal_type, occasionally meta.refinery.root / probe / other reserved fields, repeated keys and filler fields; "
         "about a quarter of the spans are also re-encoded and sent to a peer-type router; "
         "events also carry field names that differ only in letter case from a configured sampling-key / trace-ID / parent-ID field name, alone and next to the exact name in both orders; "
         "non-trivial = contains an event with at least two of {configured trace-ID/parent-ID fields, meta.trace_id, meta.signal_type}; "
         "distinct by transcript hash",
    trusted_base=["tinylib/msgp (msgpack reading), valyala/fastjson and json-iterator (JSON reading): byte level not modelled, "
                  "checked differentially against a hand-written encoder and an independent decoder",
                  "httptest / gorilla mux URL vars to call the real handlers; config.MockConfig",
                  "Go map iteration order on /1/events: an acceptor input (the oracle accepts an outcome iff some order of the model produces it)"],
    assumptions=["the model carries one flag per repair of types/payload.go (Model/Payload.lean `Fixed`, `fixedNow`); the oracle runs the flagged "
                 "variants, which are the unrepaired functions when no flag is set; `*_fixed` theorems state the full property for the repaired variants",
                 "theorems assume a sane configuration: no configured trace-ID / parent-ID / sampling-key field name is one of the reserved "
                 "metadata names, and (root_iff) no name is both a trace-ID and a parent-ID name; unique keys per event",
                 "root_iff / belongs_iff speak about client events, i.e. events that do not themselves carry meta.refinery.root or meta.refinery.probe",
                 "strings are opaque tokens in the model (the harness percent-encodes them injectively); only reserved names, the prefix "
                 "\"meta.\" and the value \"log\" are inspected",
                 "OTLP protobuf translation (husky) and the msgpack single-event body of /1/events are not driven"],
    manifest=dict(
        text="Lean model of Payload.extractCriticalFieldsFromBytes (wire order) and ExtractMetadata (Go-map order as an input) with the reserved "
             "metadata table regenerated from the code; theorems for all field lists and configurations: belongs_iff (partial), root_iff, "
             "log_never_root, trace_id_wire_order, trace_id_configured_order (partial: present trace-ID fields agree) on every ingestion path; "
             "the full-strength trace_id_configured_order and belongs_iff are refuted with concrete witnesses that the harness reproduces on the "
             "real handlers; model tied to the code by replaying generated events through the real /1/batch, /1/events and OTLP-msgpack paths "
             "and comparing the span handed to the collector, plus a monitor that evaluates the property on the implementation's own outcome.",
        note="Trusted: Lean kernel; differential harness (sampled); msgpack/JSON libraries at byte level. Known divergences are listed findings.",
        technique="Lean 4 proof (simulation of the extraction loop by a per-entry specification, induction over field lists) + "
                  "model/implementation correspondence check with an order acceptor",
    ),
)
