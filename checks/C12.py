def nontrivial(c):
    """two different workers build a sampler (cache miss) for the same sampler key, or a reload happens between two builds"""
    builders = {}
    built = set()
    cleared = False
    ok = False
    for l in c["lines"]:
        p = l.split(" ")
        if p[0] != "op":
            continue
        if p[1] in ("cget", "reload", "feed"):
            ok = True
        elif p[1] == "get" and len(p) > 3:
            w, e = p[2], p[3]
            if (w, e) not in built:
                built.add((w, e))
                s = builders.setdefault(e, set())
                s.add(w)
                if len(s) >= 2 or cleared:
                    ok = True
        elif p[1] == "wreload" and len(p) > 2:
            built = {(w, e) for (w, e) in built if w != p[2]}
        elif p[1] == "clear":
            cleared = True
            builders = {}
    return ok


SPEC = dict(
    property="C12",
    component="samplerreg",
    props_module="Refinery.Props.C12",
    gen_module="Refinery.Gen.Samplerreg",
    quick=dict(cases=1000, len=40, shards=4),
    thorough=dict(cases=48000, len=60, shards=16),
    nontrivial=nontrivial,
    rule="cases = 1-3 generated rules configurations (top-level and rules-based environments, all five dynsampler-backed "
         "sampler types plus deterministic, definitions that differ from one another in exactly one parameter, environment "
         "names with ':' and spaces, field names with spaces) x 1-4 simulated workers x a history of get/peers/peersfail/"
         "setcfg/clear/wreload/cget/reload/feed on the real SamplerFactory (feed = a worker asks every dynsampler behind its "
         "sampler about n traces; every observation lists the events each registered dynsampler of every kind holds in its "
         "counting window, read from the dynsampler-go structs; reload = the real InMemCollector.reloadConfigs on a collector "
         "shell with parked workers, one worker running a loop iteration in the middle of it, the observed order of its steps "
         "replayed on the model; cget = 2-8 goroutines released by a barrier ask the factory "
         "for the same sampler key at once, usually right after a clear, with a Metrics.Register that yields and sleeps 200us, "
         "GOMAXPROCS>=8); non-trivial = two different workers build a sampler for the same sampler key (sequentially or "
         "concurrently), or a sampler is built after a ClearDynsamplers; distinct by transcript hash",
    trusted_base=["dynsampler-go's per-key counters (currentCounts / countList) read through reflect+unsafe under the sampler's lock; "
                  "cases are far shorter than any clearing interval (>= 10 s), so no ticker empties them during a case",
                  "the harness' simulated worker cache (the three lines of makeDecision that consult datasetSamplers and the "
                  "`case <-cl.reload` arm that clears it); reloadConfigs itself is the real function, fed by real reload channels",
                  "pointer identity of the dynsampler behind a sampler = identity of its rate-tracking state",
                  "config.MockConfig.GetSamplerConfigForDestName behaves like fileConfig's (same code shape)"],
    manifest=dict(
        text="Lean theorems over all configurations and all histories of lazy sampler creation on any worker, peer changes, "
             "config swaps, registry clears and per-worker cache clears: workers_share (same prefix+definition => same "
             "instance, when keys determine sampler type), workers_share_concurrent (every order of simultaneous factory calls), workers_share_after_reload (reload in the code's "
             "order: clear, then signal), feed_count_survives_other_workers_get (only feeding changes what a shared instance has counted), reload_clears, isolation (full statement REFUTED by machine-checked "
             "witnesses in three classes + a cross-type one; isolation_partial proved under: environment names without ':', "
             "field names non-empty without spaces). Model tied to sample/sample.go by replaying generated histories on the "
             "real SamplerFactory (registry keys, instance identity per sampler slot, goals) and comparing every observation.",
        note="Trusted: Lean kernel; the sampled differential check; the harness' worker-cache simulation; dynsampler-go internals "
             "(only GoalThroughputPerSec is read).",
        technique="Lean 4 proof (state invariant by induction over histories, string-level key injectivity) + "
                  "model/implementation correspondence check",
    ),
    assumptions=["each SamplerFactory method is atomic (it holds the factory mutex); worker cache lookups happen on the worker's own goroutine",
                 "concurrent creation is observed on sampled schedules only (barrier + a yielding Metrics.Register); the theorem "
                 "workers_share_concurrent covers every order of the atomic factory calls, atomicity itself is what the cget runs test",
                 "every rules configuration has a __default__ entry (otherwise createSampler calls os.Exit)",
                 "strings are compared as sequences of Unicode code points (equals Go's byte order on valid UTF-8)"],
)
