import json, os, re, sys


def nontrivial(c):
    """some trace ID of the case is both kept (at one rate) and dropped (at another): a threshold is crossed"""
    seen = {}
    cur = None
    for l in c["lines"]:
        p = l.split(" ")
        if p[0] == "op":
            cur = (p[1], p[2]) if p[1] in ("det", "stress") and len(p) > 3 else None
        elif p[0] == "obs" and cur is not None and len(p) > 2 and p[1] == "A":
            seen.setdefault(cur, set()).add(p[2])
    return any({"true", "false"} <= v for v in seen.values())


def custom(vc, spec, tier, seed, replay):
    """generic pipeline, then (labelled as a TEST) the empirical kept fraction over the pseudo-random
    trace IDs of the `frac` operations of this run, read back from the transcripts."""
    spec2 = {k: v for k, v in spec.items() if k != "custom"}
    rc = vc.generic_check(spec2, "C10", tier, seed, replay)
    try:
        agg = {}
        import hashlib
        d = os.path.join(vc.CACHE, "run", "C10" + ("" if vc.REPO == "/repo" else
                                                   "-" + hashlib.sha1(vc.REPO.encode()).hexdigest()[:10]))
        for f in sorted(os.listdir(d)):
            if not re.fullmatch(r"(s\d+|corpus)\.tr", f):
                continue
            cur = None
            for l in open(os.path.join(d, f)):
                if l.startswith("op frac "):
                    p = l.split()
                    cur = (p[2], int(p[5]))
                elif l.startswith("op "):
                    cur = None
                elif l.startswith("obs A ") and cur is not None:
                    p = l.split()
                    if len(p) == 7 and p[2].isdigit() and p[6].isdigit():
                        a = agg.setdefault(cur, [0, 0])
                        a[0] += int(p[2])
                        a[1] += int(p[6])
                    cur = None
        rows = []
        for (kind, rate), (k, n) in sorted(agg.items()):
            if n:
                rows.append({"sampler": kind, "rate": rate, "ids": n, "kept": k,
                             "kept_fraction": round(k / n, 6), "one_over_rate": round(1.0 / max(rate, 1), 6)})
        if rows:
            vc.log("[C10] TEST (empirical, not a proof): kept fraction over pseudo-random trace IDs, real samplers")
            for r in rows:
                vc.log("[C10]   %-6s rate=%-5d kept %d of %d = %.5f   (1/rate = %.5f)" % (
                    r["sampler"], r["rate"], r["kept"], r["ids"], r["kept_fraction"], r["one_over_rate"]))
        p = os.path.join(vc.VERIF, "evidence", "C10.json")
        ev = json.load(open(p))
        ev["coverage"]["empirical_fraction_test"] = {
            "note": "a statistical TEST on the real samplers (uniformity of SHA-1 / wyhash over trace IDs is an assumption, not a theorem)",
            "rows": rows}
        for s in ev["coverage"].get("samples", []):
            if isinstance(s, dict) and "transcript" in s:
                s["transcript"] = [t if len(t) <= 240 else t[:240] + "…(%d chars)" % len(t) for t in s["transcript"]]
        vc.write_evidence("C10", ev)
    except Exception as e:          # the add-on must never change the verdict
        vc.log("[C10] empirical-fraction add-on skipped: %r" % (e,))
    return rc


SPEC = dict(
    property="C10",
    component="determ",
    props_module="Refinery.Props.C10",
    custom=custom,
    quick=dict(cases=800, len=24, shards=4),
    thorough=dict(cases=80000, len=30, shards=16),
    nontrivial=nontrivial,
    rule="cases = 2-5 trace IDs (random 32/16-hex, IDs searched for a small hash value, odd strings incl. the empty one), "
         "each asked at many rates on two independently constructed real samplers (DeterministicSampler: struct+Start and "
         "through SamplerFactory; StressRelief after UpdateFromConfig): small rates, the critical rates floor(U/h)-1..+1 of "
         "that very hash value, boundaries 1, 2, 65535..65537, 2^31-1..2^31+1, 2^32-2, 2^32-1 (stress: 0, 2^32, 2^63, 2^64-1), "
         "log-uniform rates, and (deterministic only) rates outside 1..2^32-1 that validation accepts (0, negative, multiples of "
         "2^32, >= 2^32, MaxInt64, MinInt64: since the C28 repair they must keep all / nest like every other rate); "
         "interleaved (30% of ops) a history on ONE long-lived real StressRelief per case (real Start, loop off): sreload "
         "<mode> <rate> (UpdateFromConfig), srecalc (Recalc sets stressed from the mode), sask <id> answered by the long-lived "
         "instance and by a fresh one at the rate configured last; "
         "15% of quick cases (4% thorough) add a wiring leg: a real InMemCollector + real StressRelief + MockConfig with non-empty "
         "(cfgHash, rulesHash); creload cfg|rules|both <rate> changes SamplingRate, bumps the hash(es) and fires the registered "
         "reload callbacks as fileConfig.Reload does; cask <fresh id> asks the collector's StressRelief, a fresh instance at the "
         "rate in force, and ProcessSpanImmediately (stamped rate); "
         "some cases end with a frac op (4000 pseudo-random IDs at a small rate). non-trivial = some trace ID of the case is "
         "kept at one rate and dropped at another; distinct by transcript hash",
    trusted_base=["crypto/sha1, encoding/binary and dgryski/go-wyhash as called by the harness to produce the hash graph "
                  "(same calls, salt and seed read from the packages through accessors)",
                  "config.MockConfig / logger.NullLogger / metrics.NullMetrics"],
    manifest=dict(
        text="Lean theorems over all hash values and all rates for both samplers: the decision is a function of (hash, rate) only, "
             "two instances agree, rate <= 1 keeps everything, keep <=> hash*rate <= MaxUint (threshold floor(U/rate)), nesting "
             "(kept at N => kept at every M <= N), after any history of reloads and stressed/unstressed changes a long-lived StressRelief "
             "decides by the last configured rate only (stress_history_independent), and exactly ceil(2^w/N) of the 2^w hash values are kept (fraction in [1/N, 1/N+2^-w)); "
             "the deterministic sampler's theorems hold for every int rate (Start divides in 64 bits and only for rate > 1: never panics, "
             "rates <= 1 keep everything, rates >= 2^32 keep only hash 0). The model is "
             "tied to sample/deterministic.go and collect/stressRelief.go by replaying generated (trace ID, rate) pairs on the real "
             "samplers, with the real SHA-1/wyhash value passed as data, and comparing keep, rate and reason with the model; a monitor "
             "checks agreement, purity, nesting, rate<=1 and (as a statistical test) the kept fraction on the real answers.",
        note="Trusted: Lean kernel; the differential check (sampled); SHA-1/wyhash uniformity over trace IDs is an assumption "
             "(only tested empirically). Before commit 2ccad7d rates 0 / multiples of 2^32 panicked in Start and rates >= 2^32 were "
             "truncated (reported for C28); the repaired code is what the model mirrors and those rates stay in the generator and corpus.",
        technique="Lean 4 proof (threshold arithmetic over Nat/Int with explicit truncation) + model/implementation correspondence check",
    ),
    assumptions=["int and uint are 64 bits wide (amd64/arm64)",
                 "the hash of a trace ID (SHA-1 prefix with the package salt / wyhash with the package seed) is a fixed function; "
                 "its uniformity over real trace IDs is assumed, not proved (empirical test only)",
                 "deterministic sampler theorems cover every int rate (unbounded Int in the model; Go's int is 64 bits)"],
)
