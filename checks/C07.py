def nontrivial(c):
    """a case in which an ejection (direct or through checkAlloc) decided at least one trace while the buffer held >= 2"""
    ok = False
    lines = c["lines"]
    for i, l in enumerate(lines):
        if l.startswith("op eject ") or l.startswith("op alloc "):
            imps = 0
            for m in lines[i + 1:i + 200]:
                if m.startswith("ext imp "):
                    imps += 1
                elif m.startswith("obs "):
                    if imps >= 2 and "trace_send_ejected_memsize" in m:
                        ok = True
                    break
    return ok

SPEC = dict(
    property="C07",
    component="deadline",
    props_module="Refinery.Props.C07",
    gen_module="Refinery.Gen.Deadline",
    quick=dict(cases=600, len=60, shards=4),
    thorough=dict(cases=16000, len=90, shards=16),
    nontrivial=nontrivial,
    rule="cases = the `deadline` component's random schedules (see C03) with ~9% direct sendTracesEarly(bytes) calls, bytes drawn from "
         "{0, 1, size of one trace -1/0/+1, half / all / all+1 / 10x the buffered data size} and ~1% real checkAlloc calls with MaxAlloc "
         "set to (heap reading - delta), delta from {-1e9 (within budget), 0, 1, 100, 1e4, 1e6, 2^40}; span data sizes from "
         "{0,1,2,10,100,1000} (many impact ties) and wall-clock ages 0..2xTraceTimeout (impact multipliers 1..9 and, with tiny timeouts, "
         "wall-clock dependent); 30% of the cases plant age-flip pairs (an older small trace, age 1-4 or 8 quarters of the trace timeout, next to a fresh "
         "trace whose size lies strictly between the old one's raw size and its age-weighted impact) followed by an ejection; "
         "non-trivial = an ejection decided >= 1 trace out of a buffer of >= 2; distinct by transcript hash",
    trusted_base=["clockwork.FakeClock", "the repository's mocks (config.MockConfig, MockStressReliever, MockSharder, MockPeers, metrics.MockMetrics)",
                  "runtime/metrics heap reading taken as an input (gauge and constant recorded by the code's own Metrics calls); the wall clock read by "
                  "Span.CacheImpact is bracketed: span ages are observed as [lower, upper] bounds around the call and the code's memoised "
                  "totalImpact must lie between the modelled estimates for the two bounds (equal in almost all generated cases)",
                  "sort.Slice / map iteration tie order treated as an acceptor input (checked, not predicted)"],
    manifest=dict(
        text="Lean theorems over all buffer contents, impacts, byte shares and histories of a collector worker: an accepted ejection is a prefix "
             "of an impact-descending order of the buffer (eject_prefix; eject_prefix_modelled: descending in the modelled age-weighted estimate "
             "sum size*(4*age/TraceTimeout+1) with Go's truncation order, impact_formula, impact_monotone_in_age, memoisation as coded), stops exactly at the first point where the released data size exceeds "
             "the share or the buffer is empty (eject_stop_rule), every ejected trace is decided with the memory send reason, with all its "
             "spans, and leaves the buffer (eject_decides), nothing is lost: buffered-before = buffered-after + ejected and in every reachable "
             "state every accepted trace is either buffered or decided, never both (eject_conserves), and the per-worker share is "
             "floor((heap - MaxAlloc)/workers) with no ejection iff MaxAlloc = 0 or heap < MaxAlloc (share_formula). Model tied to "
             "collect/collector_worker.go sendTracesEarly and collect/collect.go checkAlloc by calling them on a real InMemCollector and "
             "comparing ejected traces, send reasons, span counts and remaining buffer with the model, plus a monitor on the implementation's observations.",
        note="Trusted: Lean kernel; the Go harness/oracle differential check (sampled, not exhaustive); heap reading and CacheImpact values are runtime facts "
             "read back from the code; keep/drop and forwarding of the decided trace are C01/C02 (every trace kept here).",
        technique="Lean 4 proof (acceptor specification of the impact sort + stop rule; invariant by induction over histories) + model/implementation correspondence check",
    ),
    assumptions=["sendTracesEarly runs atomically on its worker goroutine (the harness plays the worker's sendEarly select branch)",
                 "buffered traces are never already marked Sent (makeDecision's error branch is unreachable for buffered traces)",
                 "heap reading (runtime/metrics) and what runtime.GC() frees are runtime facts outside the model",
                 "sort.Slice calls the comparison (and so memoises Trace.totalImpact) for every element iff the buffer holds >= 2 traces",
                 "every trace is kept (deterministic sampler, rate 1) so that each decision reaches the recording transmission"],
)
