def nontrivial(c):
    """at least one span kept under stress (upstream enqueue of the arriving object while stressed),
    a stress switch and a dispatch"""
    lines = c["lines"]
    names = [l.split(" ")[1] for l in lines if l.startswith("op ")]
    stressed = kept = False
    for idx, l in enumerate(lines):
        if l.startswith("op stress"):
            stressed = l.endswith("1")
        elif l.startswith("op span") and stressed:
            for m in lines[idx + 1: idx + 4]:
                if m.startswith("op "):
                    break
                if m.startswith("obs ") and " enq=u" in m:
                    kept = True
                    break
    return kept and "flush" in names and "stress" in names


SPEC = dict(
    property="C16",
    component="stressroute",
    props_module="Refinery.Props.C16",
    quick=dict(cases=1200, len=40, shards=4),
    thorough=dict(cases=64000, len=60, shards=16),
    nontrivial=nontrivial,
    rule="cases = random histories on one real node (incoming + peer Router.processEvent, real InMemCollector with one worker "
         "stepped by the harness, real StressRelief forced on/off, MockSharder, recording transmissions by pointer identity): "
         "span arrivals (2-6 traces, owner self/peer 10/peer 11, either listener, 2 endpoints/keys/datasets, map or msgpack payload, "
         "probe marker absent/true/false, no trace id 7%), stress on/off, reloads of StressRelief.SamplingRate (real reloadConfigs, also while "
         "stressed), decisions of the normal sampler entered into the real decision record (kept at rates 1..25 or dropped, 45% of the "
         "cases start with one or two) whose later spans arrive under stress, worker steps, upstream/peer dispatch; 40% of the cases run "
         "two real DirectTransmissions against httptest servers (2 Honeycomb endpoints, 2 peers) and report what each server "
         "received, the others use transmit.MockTransmission and read the queued pointers at dispatch; every case ends with relief "
         "ending, late spans, worker catch-up and a full dispatch; non-trivial = at least one span kept under stress, a stress "
         "switch and a dispatch; distinct by transcript hash",
    trusted_base=["wyhash (values supplied by the harness through the package's own seed)",
                  "net/http + httptest loopback, vmihailenco/msgpack and klauspost zstd decoding in the fake endpoints",
                  "sharder.MockSharder (ownership is an input of each operation)",
                  "cuckoo filter / LRU of the decision record behave as an exact finite map at the harness' sizes"],
    assumptions=["one collector worker; collector queues never full (C19 covers ErrWouldBlock); no normal trace decisions are made "
                 "(no ticker), so buffered traces stay buffered",
                 "the decision record neither evicts nor gives false positives (few traces per case, KeptSize 1000)",
                 "a batch is dispatched as a step of its own: sendBatch never runs concurrently with processEvent "
                 "(MaxBatchSize is not reached; the ticker loop is C26's)",
                 "dry run off, AddRuleReasonToTrace/AddHostMetadataToTrace/AdditionalAttributes off; meta fields other than "
                 "meta.stressed and meta.refinery.probe and the sample-rate bookkeeping fields are not compared",
                 "SamplingRate < 2^32 (the record stores the rate as uint32)"],
    manifest=dict(
        text="Lean theorems over all node states / all operation histories: stress decision = hash rule and identical on every node, "
             "recorded decision followed by all later spans (stressed or late through the worker), nothing buffered under stress; "
             "delivery statement (each kept span reaches its Honeycomb endpoint exactly once, meta.stressed, fields/key/dataset/host "
             "intact, no probe marker at Honeycomb) proved for a router that sends a copy as probe and refuted with a witness for the "
             "current router, whose probe is the very event already queued upstream (aliasing-faithful object-store model); model tied "
             "to route.processEvent, collect.ProcessSpanImmediately/processSpan/dealWithSentTrace, StressRelief.GetSampleRate and "
             "transmit.DirectTransmission.EnqueueEvent/sendBatch by replaying generated histories on the real code (pointer identity "
             "of every enqueue; decoded request bodies and hosts at fake Honeycomb and peer servers) plus a monitor on those observations.",
        note="Trusted: Lean kernel; differential harness (sampled); fake endpoints' decoding; exact-map abstraction of the decision record.",
        technique="Lean 4 proof (invariant over an object-store model, refutation by kernel evaluation of a witness) + model/implementation correspondence check",
    ),
)
